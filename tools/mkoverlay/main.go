// Command mkoverlay prepares the build overlay of the simulation binary from
// the current working tree of the repository. Nothing is written into the
// repository: instrumented copies and the virtual packages land in an output
// directory and overlay.json maps them over their original paths.
//
//	mkoverlay -repo /repo -verif /verif -out /dev/shm/x [-noyield]
//
// For every non-test Go file of the root package and of mqtttest it inserts a
// call verifsim.Yield("file:line") before each statement that uses sync/atomic or sends on,
// receives from, closes, selects on or ranges over a channel, or that locks a
// mutex -- except inside a mutex critical section. mqtt.go's import of "os" is
// rebound to the simulated os. The Go runtime's select.go gets a deterministic
// poll order for goroutines inside a synctest bubble.
package main

import (
	"bytes"
	"encoding/json"
	"flag"
	"fmt"
	"go/ast"
	"go/format"
	"go/importer"
	"go/parser"
	"go/token"
	"go/types"
	"os"
	"path/filepath"
	"sort"
	"strconv"
	"strings"
)

const hookPkg = "github.com/pascaldekloe/mqtt/verifsim"
const simosPkg = "github.com/pascaldekloe/mqtt/verifsim/simos"

var (
	repo    = flag.String("repo", "/repo", "repository working tree")
	verif   = flag.String("verif", "/verif", "verification directory")
	out     = flag.String("out", "", "output directory")
	noyield = flag.Bool("noyield", false, "do not insert yields (cross-check builds)")
	goroot  = flag.String("goroot", "", "GOROOT of the simulation toolchain")
)

// constructors work on objects no other goroutine can see yet
// and the two signal accessors are atomic: a goroutine parked inside would
// hold the signal holder and starve the simulator's own observation
var skipFunc = map[string]bool{"newClient": true, "Online": true, "Offline": true}

func fatal(format string, a ...any) {
	fmt.Fprintf(os.Stderr, "mkoverlay: "+format+"\n", a...)
	os.Exit(2)
}

func main() {
	flag.Parse()
	if *out == "" || *goroot == "" {
		fatal("need -out and -goroot")
	}
	if err := os.MkdirAll(*out, 0o755); err != nil {
		fatal("%v", err)
	}
	replace := map[string]string{}
	stats := map[string]int{}

	for _, dir := range []string{"", "mqtttest"} {
		src := filepath.Join(*repo, dir)
		ents, err := os.ReadDir(src)
		if err != nil {
			fatal("%v", err)
		}
		var files []string
		for _, e := range ents {
			n := e.Name()
			if e.IsDir() || !strings.HasSuffix(n, ".go") || strings.HasSuffix(n, "_test.go") {
				continue
			}
			files = append(files, n)
		}
		sort.Strings(files)
		n, err := instrumentDir(src, dir, files, replace)
		if err != nil {
			fatal("%s: %v", src, err)
		}
		stats[dir] = n
	}

	// virtual packages
	copyInto := func(rel, dstRel string) {
		b, err := os.ReadFile(filepath.Join(*verif, "overlay", rel))
		if err != nil {
			fatal("%v", err)
		}
		dst := filepath.Join(*out, "virt", dstRel)
		os.MkdirAll(filepath.Dir(dst), 0o755)
		if err := os.WriteFile(dst, b, 0o644); err != nil {
			fatal("%v", err)
		}
		replace[filepath.Join(*repo, dstRel)] = dst
	}
	copyInto("verifsim/verifsim.go", "verifsim/verifsim.go")
	copyInto("verifsim/simos/simos.go", "verifsim/simos/simos.go")

	// package-internal export
	export := `package mqtt

// This file is part of the simulation build overlay only.

// VerifSetReadBufSize sets the size of read buffers of later connections.
func VerifSetReadBufSize(n int) { readBufSize = n }

// VerifReadBufSize returns the current setting.
func VerifReadBufSize() int { return readBufSize }

// VerifSignals observes the Online and Offline signals without blocking;
// known is false while a transition holds either signal holder.
func (c *Client) VerifSignals() (online, offline, known bool) {
	select {
	case sig := <-c.onlineSig:
		select {
		case <-sig:
			online = true
		default:
		}
		c.onlineSig <- sig
	default:
		return false, false, false
	}
	select {
	case sig := <-c.offlineSig:
		select {
		case <-sig:
			offline = true
		default:
		}
		c.offlineSig <- sig
	default:
		return false, false, false
	}
	return online, offline, true
}

// VerifWriteLockFree reports whether the write semaphore holds its token, i.e.
// no goroutine is between taking and returning it (names the field writeSem).
func (c *Client) VerifWriteLockFree() bool { return len(c.writeSem) == 1 }
`
	dst := filepath.Join(*out, "virt", "zz_verif_export.go")
	if err := os.WriteFile(dst, []byte(export), 0o644); err != nil {
		fatal("%v", err)
	}
	replace[filepath.Join(*repo, "zz_verif_export.go")] = dst

	// runtime: select poll order and goroutine id
	selPath := filepath.Join(*goroot, "src", "runtime", "select.go")
	sel, err := os.ReadFile(selPath)
	if err != nil {
		fatal("%v", err)
	}
	const stock = "j := cheaprandn(uint32(norder + 1))"
	if bytes.Count(sel, []byte(stock)) != 1 {
		fatal("runtime/select.go: poll order line not found exactly once; toolchain changed")
	}
	patched := bytes.Replace(sel, []byte(stock),
		[]byte("var j uint32\n\t\tif gp.bubble != nil && verifsimSelectMode != 0 {\n\t\t\tj = verifsimPoll(uint32(norder))\n\t\t} else {\n\t\t\tj = cheaprandn(uint32(norder + 1))\n\t\t}"), 1)
	dst = filepath.Join(*out, "virt", "runtime_select.go")
	if err := os.WriteFile(dst, patched, 0o644); err != nil {
		fatal("%v", err)
	}
	replace[selPath] = dst
	// runtime: no time-slice preemption by sysmon while simulating. A
	// preempted goroutine goes to the global run queue, which reorders
	// the goroutines that are runnable within one scheduler step by
	// wall-clock time.
	procPath := filepath.Join(*goroot, "src", "runtime", "proc.go")
	proc, err := os.ReadFile(procPath)
	if err != nil {
		fatal("%v", err)
	}
	const stockRetake = "} else if pd.schedwhen+forcePreemptNS <= now {\n\t\t\tpreemptone(pp)"
	if bytes.Count(proc, []byte(stockRetake)) != 1 {
		fatal("runtime/proc.go: retake preemption not found exactly once; toolchain changed")
	}
	proc = bytes.Replace(proc, []byte(stockRetake),
		[]byte("} else if pd.schedwhen+forcePreemptNS <= now {\n\t\t\tif verifsimSelectMode == 0 {\n\t\t\t\tpreemptone(pp)\n\t\t\t}"), 1)
	dst = filepath.Join(*out, "virt", "runtime_proc.go")
	if err := os.WriteFile(dst, proc, 0o644); err != nil {
		fatal("%v", err)
	}
	replace[procPath] = dst

	b, err := os.ReadFile(filepath.Join(*verif, "overlay", "runtime", "zz_verifsim.go"))
	if err != nil {
		fatal("%v", err)
	}
	dst = filepath.Join(*out, "virt", "runtime_zz_verifsim.go")
	if err := os.WriteFile(dst, b, 0o644); err != nil {
		fatal("%v", err)
	}
	replace[filepath.Join(*goroot, "src", "runtime", "zz_verifsim.go")] = dst

	js, _ := json.MarshalIndent(map[string]any{"Replace": replace}, "", " ")
	if err := os.WriteFile(filepath.Join(*out, "overlay.json"), js, 0o644); err != nil {
		fatal("%v", err)
	}
	fmt.Printf("mkoverlay: yields root=%d mqtttest=%d files=%d\n", stats[""], stats["mqtttest"], len(replace))
}

func instrumentDir(src, rel string, names []string, replace map[string]string) (int, error) {
	fset := token.NewFileSet()
	var files []*ast.File
	for _, n := range names {
		f, err := parser.ParseFile(fset, filepath.Join(src, n), nil, parser.ParseComments)
		if err != nil {
			return 0, err
		}
		files = append(files, f)
	}

	// type information, to tell a range over a channel from other ranges;
	// failure to type-check is not fatal (syntactic fallback: no range
	// body yields), the Go build will report real errors.
	info := &types.Info{Types: map[ast.Expr]types.TypeAndValue{}, Uses: map[*ast.Ident]types.Object{}}
	if rel == "" && !*noyield {
		conf := types.Config{Importer: importer.ForCompiler(fset, "source", nil), Error: func(error) {}}
		conf.Check("mqtt", fset, files, info)
	}

	total := 0
	for i, f := range files {
		n := 0
		if !*noyield {
			in := &instr{fset: fset, info: info, file: names[i]}
			for _, d := range f.Decls {
				if fd, ok := d.(*ast.FuncDecl); ok && fd.Body != nil && !skipFunc[fd.Name.Name] {
					in.block(fd.Body, false)
				}
			}
			n = in.n
			if n > 0 {
				addImport(f, "", hookPkg)
			}
		}
		if rel == "" {
			rebindOS(f)
		}
		var buf bytes.Buffer
		if err := format.Node(&buf, fset, f); err != nil {
			return 0, err
		}
		dst := filepath.Join(*out, "src", rel, names[i])
		os.MkdirAll(filepath.Dir(dst), 0o755)
		if err := os.WriteFile(dst, buf.Bytes(), 0o644); err != nil {
			return 0, err
		}
		replace[filepath.Join(src, names[i])] = dst
		total += n
	}
	return total, nil
}

func rebindOS(f *ast.File) {
	for _, imp := range f.Imports {
		if imp.Path.Value == `"os"` {
			imp.Path.Value = strconv.Quote(simosPkg)
			imp.Name = ast.NewIdent("os")
		}
	}
}

func addImport(f *ast.File, name, path string) {
	for _, imp := range f.Imports {
		if imp.Path.Value == strconv.Quote(path) {
			return
		}
	}
	spec := &ast.ImportSpec{Path: &ast.BasicLit{Kind: token.STRING, Value: strconv.Quote(path)}}
	if name != "" {
		spec.Name = ast.NewIdent(name)
	}
	decl := &ast.GenDecl{Tok: token.IMPORT, Specs: []ast.Spec{spec}}
	// after the first import declaration, or first
	idx := 0
	for i, d := range f.Decls {
		if g, ok := d.(*ast.GenDecl); ok && g.Tok == token.IMPORT {
			idx = i + 1
		}
	}
	f.Decls = append(f.Decls[:idx], append([]ast.Decl{decl}, f.Decls[idx:]...)...)
	f.Imports = append(f.Imports, spec)
}

type instr struct {
	fset *token.FileSet
	info *types.Info
	file string
	n    int
}

func (in *instr) yieldStmt(pos token.Pos) ast.Stmt {
	in.n++
	label := fmt.Sprintf("%s:%d", in.file, in.fset.Position(pos).Line)
	return &ast.ExprStmt{X: &ast.CallExpr{
		Fun:    &ast.SelectorExpr{X: &ast.Ident{NamePos: pos, Name: "verifsim"}, Sel: &ast.Ident{NamePos: pos, Name: "Yield"}},
		Lparen: pos,
		Args:   []ast.Expr{&ast.BasicLit{ValuePos: pos, Kind: token.STRING, Value: strconv.Quote(label)}},
		Rparen: pos,
	}}
}

// block rewrites the statement list of b. critical is whether a mutex is held
// on entry. It returns whether a mutex is held at the end.
func (in *instr) block(b *ast.BlockStmt, critical bool) bool {
	b.List, critical = in.stmts(b.List, critical)
	return critical
}

func (in *instr) stmts(list []ast.Stmt, critical bool) ([]ast.Stmt, bool) {
	var outl []ast.Stmt
	for _, s := range list {
		// function literals anywhere in the statement start unlocked
		in.funcLits(s)

		locks, unlocks, deferUnlock := lockCalls(s)
		if !critical && (in.touchesChan(s) || locks) {
			outl = append(outl, in.yieldStmt(s.Pos()))
		}
		if locks {
			critical = true
		}
		// nested statement lists
		switch x := s.(type) {
		case *ast.BlockStmt:
			critical = in.block(x, critical)
		case *ast.IfStmt:
			in.ifStmt(x, critical)
		case *ast.ForStmt:
			in.block(x.Body, critical)
		case *ast.RangeStmt:
			in.block(x.Body, critical)
			if !critical && in.isChanRange(x) {
				// every iteration is a receive
				x.Body.List = append([]ast.Stmt{in.yieldStmt(x.Body.Pos())}, x.Body.List...)
			}
		case *ast.SwitchStmt:
			in.clauses(x.Body, critical)
		case *ast.TypeSwitchStmt:
			in.clauses(x.Body, critical)
		case *ast.SelectStmt:
			in.clauses(x.Body, critical)
		case *ast.LabeledStmt:
			var l []ast.Stmt
			l, critical = in.stmts([]ast.Stmt{x.Stmt}, critical)
			if len(l) == 2 {
				// yield belongs before the label
				outl = append(outl, l[0])
				x.Stmt = l[1]
			}
		}
		if unlocks && !deferUnlock {
			critical = false
		}
		if critical && nestedUnlock(s) {
			// released inside the branches of a compound statement
			critical = false
		}
		outl = append(outl, s)
	}
	return outl, critical
}

func (in *instr) ifStmt(x *ast.IfStmt, critical bool) {
	in.block(x.Body, critical)
	switch e := x.Else.(type) {
	case *ast.BlockStmt:
		in.block(e, critical)
	case *ast.IfStmt:
		in.ifStmt(e, critical)
	}
}

func (in *instr) clauses(body *ast.BlockStmt, critical bool) {
	for _, c := range body.List {
		switch cc := c.(type) {
		case *ast.CaseClause:
			cc.Body, _ = in.stmts(cc.Body, critical)
		case *ast.CommClause:
			cc.Body, _ = in.stmts(cc.Body, critical)
		}
	}
}

// funcLits instruments the bodies of function literals found in s (not
// descending into nested statement lists of s itself twice: literals are
// found by a full walk, bodies of literals are handled once here and their
// statements are skipped by touchesChan).
func (in *instr) funcLits(s ast.Stmt) {
	if _, ok := s.(*ast.LabeledStmt); ok {
		return // the inner statement is visited on its own
	}
	// only literals directly in the expressions of this statement; those in
	// nested statements are reached when the nested statements are visited
	ast.Inspect(s, func(n ast.Node) bool {
		switch x := n.(type) {
		case *ast.BlockStmt:
			if n != s {
				return false
			}
		case *ast.CaseClause, *ast.CommClause:
			return false
		case *ast.FuncLit:
			in.block(x.Body, false)
			return false
		}
		return true
	})
}

// touchesChan reports whether the statement itself (its own expressions, not
// nested statement lists and not function literals) has a channel operation.
func (in *instr) touchesChan(s ast.Stmt) bool {
	switch x := s.(type) {
	case *ast.SelectStmt:
		return true
	case *ast.SendStmt:
		return true
	case *ast.RangeStmt:
		return in.isChanRange(x)
	case *ast.LabeledStmt:
		return false // handled via the inner statement
	case *ast.DeferStmt:
		// deferred channel operations run at return; yield before the
		// defer statement does not help. Deferred function literals are
		// instrumented inside.
		return false
	case *ast.GoStmt:
		return false
	}
	found := false
	ast.Inspect(s, func(n ast.Node) bool {
		if found {
			return false
		}
		switch x := n.(type) {
		case *ast.BlockStmt:
			return n == ast.Node(s)
		case *ast.CaseClause, *ast.CommClause, *ast.FuncLit:
			return false
		case *ast.UnaryExpr:
			if x.Op == token.ARROW {
				found = true
			}
		case *ast.CallExpr:
			if id, ok := x.Fun.(*ast.Ident); ok && id.Name == "close" && len(x.Args) == 1 {
				found = true
			}
			// sync/atomic functions and methods are synchronisation
			// points between goroutines just as channel operations are
			if sel, ok := x.Fun.(*ast.SelectorExpr); ok {
				if obj := in.info.Uses[sel.Sel]; obj != nil && obj.Pkg() != nil && obj.Pkg().Path() == "sync/atomic" {
					found = true
				}
				// without type information (mqtttest): the package
				// qualifier
				if id, ok := sel.X.(*ast.Ident); ok && id.Name == "atomic" {
					found = true
				}
			}
		}
		return true
	})
	// for, if, switch: only init/cond/tag expressions count, which the walk
	// above covers because nested blocks are cut off
	return found
}

func (in *instr) isChanRange(x *ast.RangeStmt) bool {
	if tv, ok := in.info.Types[x.X]; ok && tv.Type != nil {
		_, isChan := tv.Type.Underlying().(*types.Chan)
		return isChan
	}
	return false
}

// nestedUnlock reports a non-deferred X.Unlock() in the nested statement lists
// of a compound statement.
func nestedUnlock(s ast.Stmt) bool {
	switch s.(type) {
	case *ast.SelectStmt, *ast.SwitchStmt, *ast.TypeSwitchStmt, *ast.IfStmt, *ast.BlockStmt, *ast.ForStmt, *ast.RangeStmt:
	default:
		return false
	}
	found := false
	ast.Inspect(s, func(n ast.Node) bool {
		switch x := n.(type) {
		case *ast.FuncLit, *ast.DeferStmt:
			return false
		case *ast.ExprStmt:
			if call, ok := x.X.(*ast.CallExpr); ok {
				if sel, ok := call.Fun.(*ast.SelectorExpr); ok && len(call.Args) == 0 && (sel.Sel.Name == "Unlock" || sel.Sel.Name == "RUnlock") {
					found = true
				}
			}
		}
		return true
	})
	return found
}

// lockCalls reports X.Lock() / X.Unlock() calls made directly by s.
func lockCalls(s ast.Stmt) (locks, unlocks, deferred bool) {
	check := func(call *ast.CallExpr) (l, u bool) {
		sel, ok := call.Fun.(*ast.SelectorExpr)
		if !ok || len(call.Args) != 0 {
			return
		}
		switch sel.Sel.Name {
		case "Lock", "RLock":
			l = true
		case "Unlock", "RUnlock":
			u = true
		}
		return
	}
	switch x := s.(type) {
	case *ast.ExprStmt:
		if call, ok := x.X.(*ast.CallExpr); ok {
			locks, unlocks = check(call)
		}
	case *ast.DeferStmt:
		_, u := check(x.Call)
		if u {
			unlocks, deferred = true, true
		}
	}
	return
}
