module verif/mkoverlay

go 1.26
