#!/bin/bash
# usage: tools/confirmmut.sh seeded/<id>  -- confirms in a scratch worktree that the seeded
# change builds, passes the baseline suite, and that its demonstration fails with it and
# passes without it. Prints one summary line; exit 0 when all four hold.
set -u
d=$(realpath "$1"); id=$(basename "$d")
W=/tmp/confirm-$id
export GOFLAGS=-mod=mod GOPROXY=off GOSUMDB=off
git -C /repo worktree remove --force $W >/dev/null 2>&1; rm -rf $W
git -C /repo worktree add -q --detach $W HEAD || exit 2
trap 'git -C /repo worktree remove --force '$W' >/dev/null 2>&1; rm -rf '$W EXIT
cd $W
sub=.
grep -q "^package mqtttest" "$d/demo_test.go.txt" && sub=mqtttest
cp "$d/demo_test.go.txt" $sub/zz_demo_test.go
tests=$(grep -o "^func Test[A-Za-z0-9_]*" $sub/zz_demo_test.go | sed 's/func //' | paste -sd'|')
# pristine: demo passes
go test -vet=off -count=1 -run "^($tests)\$" ./$sub > /tmp/confirm.$id.pristine.log 2>&1; p=$?
rm $sub/zz_demo_test.go
git apply "$d/patch.diff" || { echo "$id: patch does not apply"; exit 1; }
go build ./... > /tmp/confirm.$id.build.log 2>&1; b=$?
go test -vet=off -count=1 ./... > /tmp/confirm.$id.suite.log 2>&1; s=$?
cp "$d/demo_test.go.txt" $sub/zz_demo_test.go
go test -vet=off -count=1 -run "^($tests)\$" ./$sub > /tmp/confirm.$id.mut.log 2>&1; m=$?
ok=1; [ $p -eq 0 ] && [ $b -eq 0 ] && [ $s -eq 0 ] && [ $m -ne 0 ] && ok=0
echo "$id: demo-on-pristine=$p build=$b suite=$s demo-with-change=$m => $([ $ok -eq 0 ] && echo CONFIRMED || echo REJECTED) tests=$tests"
exit $ok
