#!/bin/bash
# usage: tools/evalmut.sh <patch.diff> <tier> <prop> [<prop>...]
# Applies a seeded change to /repo, confirms it builds and passes the baseline
# suite, runs the given checks, and reverts. Prints one line per check.
set -u
patch=$1; tier=$2; shift 2
cd /repo || exit 2
if [ -n "$(git status --porcelain)" ]; then echo "evalmut: /repo is not clean"; exit 2; fi
git apply "$patch" || { echo "evalmut: patch does not apply"; exit 2; }
trap 'git -C /repo checkout -- . ; git -C /repo clean -fdq' EXIT
export GOFLAGS=-mod=mod GOPROXY=off GOSUMDB=off
if ! go build ./... >/dev/null 2>&1; then echo "evalmut: does not build"; exit 3; fi
if ! go test -vet=off -count=1 ./... >/tmp/evalmut.base.log 2>&1; then echo "evalmut: baseline suite FAILS with the change"; tail -5 /tmp/evalmut.base.log; exit 3; fi
echo "baseline suite passes with the change"
cd /verif
for p in "$@"; do
  out=$(VERIF_SEED=${VERIF_SEED:-1} ./check $p $tier 2>&1); rc=$?
  sigs=$(echo "$out" | grep -o "signature=[^ ]*" | sort -u | tr '\n' ' ')
  echo "check $p $tier: exit=$rc $(echo "$out" | grep -c '^VIOLATION') violations $sigs"
done
