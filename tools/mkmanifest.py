#!/usr/bin/env python3
# Regenerates /verif/MANIFEST.json from the table below.
import json
props=[json.loads(l) for l in open('/verif/properties.jsonl')]
TECH="deterministic simulation with fault injection (seeded scheduler over seam calls and inserted yields, simulated transport/storage, reference broker, decision-tape shrinking and replay)"
claimed={
 'C01':('exploration',"seeded search over schedules and fault sequences of the real client against a reference broker; oracles: no forged progress, retransmission at every Online, first transmission, bounded liveness after faults stop"),
 'C03':('exploration',"seeded search with exactly-once publishes; oracles on wire, storage log and the broker's delivery log"),
 'C05':('exploration',"seeded search over yield-granular interleavings of sequential and concurrent publishers with reconnects and repeated process restarts; order, DUP and resend-completeness oracles over the wire log"),
 'C08':('exploration',"seeded search over write splits (timeout / hard error at a drawn byte count) and concurrent writers; strict independent parse of every connection's bytes"),
 'C11':('exploration',"seeded search over concurrent requests, quit timing, failing filters and connection loss; response attribution and completion oracles"),
 'C14':('exploration',"seeded search over request method x client state x fault placement x quit timing; class and no-byte-sent oracles over every API return"),
 'C17':('exploration',"seeded search over maxima and windows; identifier uniqueness, bound and ErrMax oracles"),
 'C18':('exploration',"seeded search over connect histories incl. refusals; CONNECT-first, clean-session, before-CONNACK, resend-before-new oracles"),
}
import sys
extra=json.load(open('/verif/tools/claimed_extra.json')) if __import__('os').path.exists('/verif/tools/claimed_extra.json') else {}
for k,v in extra.items(): claimed[k]=tuple(v)
m={
 "version":1,
 "setup_cmd":"./setup.sh",
 "hooks":{"guard":"overlay-only (no hook is committed to /repo: go/ast-inserted yields, the simulated os and the runtime seams exist only in the go build -overlay of the simulation binary)",
          "enable":"./check regenerates the overlay from /repo's working tree with bin/mkoverlay and builds sim/ with go1.26.8 test -c -overlay",
          "baseline_off_cmd":"cd /repo && GOFLAGS=-mod=mod GOPROXY=off go test -vet=off -count=1 ./...",
          "source_commits":[],"add_only":True},
 "engines":[{"name":"sim","path":"/verif/sim","serves_properties":sorted(claimed),"kind_free_text":"deterministic simulation with fault injection: testing/synctest bubble + cooperative seeded scheduler over seam calls and build-time inserted yields, simulated net/disk/os, reference broker and codec, decision tape with shrinking and replay files"}],
 "checks":[],
 "not_applicable":[],
 "notes":"fix: commits in /repo repair defects found by these checks; see known_findings.json and DESIGN.md section 8"
}
for p in props:
    i=p['id']
    if i in claimed:
        lvl,txt=claimed[i]
        m["checks"].append({
          "property_id":i,
          "quick_cmd":"./check %s quick"%i,
          "thorough_cmd":"./check %s thorough"%i,
          "evidence_file":"/verif/evidence/%s.json"%i,
          "replay_cmd_template":"./check replay {path}",
          "engine":"sim",
          "level_claimed":{"category":lvl,"text":txt,"design_ref":"DESIGN.md section 6, "+i},
          "level_note":"samples, does not enumerate (sweeps are exhaustive only relative to the sampled base run); trusts the reference broker/codec, the simulated transport/storage semantics and the atomicity of code between yield points",
          "technique":TECH})
    else:
        m["not_applicable"].append({"property_id":i,"reason":"check under construction in this session; not claimed until its workload and oracle are committed"})
json.dump(m,open('/verif/MANIFEST.json','w'),indent=1)
print(len(m['checks']),'claimed')
