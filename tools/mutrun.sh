#!/bin/bash
# usage: tools/mutrun.sh <abs patch> <prop> <family> <N per worker> [showviol=1|2]
# Development aid: builds the simulation binary from /repo with a seeded change
# applied, reverts /repo, runs N seeds on each of 8 workers in one family and
# prints how often each violation signature occurred.
export GOFLAGS=-mod=mod GOPROXY=off GOSUMDB=off GOTOOLCHAIN=local
cd /repo && git apply "$1" || exit 2
cd /verif && tools/devbuild.sh 2>&1 | tail -2
git -C /repo checkout -- .
cd /dev/shm/dt
pids=""
for w in 0 1 2 3 4 5 6 7; do
 VERIF_MODE=hashes VERIF_PROP=$2 VERIF_FAM=$3 VERIF_N=$4 VERIF_SEED=$((w+100)) VERIF_SHOWVIOL=${5:-1} GODEBUG=asyncpreemptoff=1 ./sim.test -test.run '^TestWorker$' > /dev/shm/dt/mutrun.$w.log 2>&1 &
 pids="$pids $!"
done
wait $pids
cat /dev/shm/dt/mutrun.*.log | grep -o "\[[A-Z ]*C[0-9]*/[^ ]*" | sort | uniq -c
echo "runs: $(cat /dev/shm/dt/mutrun.*.log | grep -c '^C')"
rm -f /dev/shm/dt/mutrun.*.log
