#!/bin/bash
# developer helper: (re)build the simulation binary into /dev/shm/dt
export GOFLAGS=-mod=mod GOPROXY=off GOSUMDB=off GOTOOLCHAIN=local
S=/dev/shm/dt; mkdir -p $S
(cd /verif/tools/mkoverlay && go1.26.8 build -o /verif/bin/mkoverlay .) || exit 1
/verif/bin/mkoverlay -repo ${REPO:-/repo} -verif /verif -out $S -goroot /opt/veriftools/go1.26.8 >/dev/null || exit 1
(cd /verif/sim && go1.26.8 test -c -vet=off -overlay $S/overlay.json -o $S/sim.test .) || exit 1
