package sim

import (
	"bytes"
	"errors"
	"fmt"
	"sort"
	"strings"
	"time"

	"github.com/pascaldekloe/mqtt"
)

func seqOf(id uint16) int { return int(id & 0x3fff) }

// ---- C08: a connection carries whole packets only ----

type monC08 struct {
	NopMonitor
	reported map[int]bool
	reqDone  map[int]bool
	pubDone  map[int]bool
}

func (m *monC08) Wire(f *Flow, c *Conn, p *WirePkt) {
	w := f.W
	switch p.Type {
	case PUBLISH:
		if p.QoS > 0 {
			pb := f.byTopic[p.Topic]
			if pb == nil {
				w.Violate("C08", "foreign-packet", "publish", "conn%d carries %s which no request produced", c.id, p.String())
				return
			}
			if !bytes.Equal(pb.Payload, p.Payload) || pb.QoS != p.QoS || pb.Retain != p.Retain {
				w.Violate("C08", "modified-packet", fmt.Sprintf("publish-q%d", pb.QoS), "conn%d carries %s which differs from publish #%d (%d payload bytes, q%d, retain=%v)", c.id, p.String(), pb.Idx, len(pb.Payload), pb.QoS, pb.Retain)
			}
			return
		}
		r := f.reqByMarker[p.Topic]
		if r == nil {
			w.Violate("C08", "foreign-packet", "publish0", "conn%d carries %s which no request produced", c.id, p.String())
			return
		}
		if !bytes.Equal(r.Payload, p.Payload) || p.Retain != (r.Kind == rkPublishRetained) {
			w.Violate("C08", "modified-packet", "publish-q0", "conn%d carries %s which differs from request #%d (%d payload bytes)", c.id, p.String(), r.Idx, len(r.Payload))
		}
	case SUBSCRIBE, UNSUBSCRIBE:
		r := f.reqByMarker[p.Filters[0]]
		if r == nil || len(r.Filters) != len(p.Filters) {
			w.Violate("C08", "foreign-packet", "subscribe", "conn%d carries %s which no request produced", c.id, p.String())
			return
		}
		for i := range p.Filters {
			if p.Filters[i] != r.Filters[i] {
				w.Violate("C08", "modified-packet", "subscribe", "conn%d carries %s with filters %q, request #%d has %q", c.id, p.String(), p.Filters, r.Idx, r.Filters)
			}
		}
	}
}

func (m *monC08) Step(f *Flow) {
	w := f.W
	if m.reported == nil {
		m.reported, m.reqDone, m.pubDone = map[int]bool{}, map[int]bool{}, map[int]bool{}
	}
	for _, c := range f.recentConns() {
		if c.ParseErr != nil && !m.reported[c.id] {
			m.reported[c.id] = true
			w.Violate("C08", "malformed-stream", "parse", "conn%d: bytes written are not a sequence of whole packets: %v (offset %d of %d)", c.id, c.ParseErr, c.parsed, len(c.C2B))
		}
	}
	for _, r := range f.ActiveReqs {
		if r.Ret == 0 || m.reqDone[r.Idx] {
			continue
		}
		m.reqDone[r.Idx] = true
		if r.Err == nil && r.Kind != rkPing && r.WireStep == 0 {
			w.Violate("C08", "success-incomplete", rkNames[r.Kind], "request #%d (%s) reported success but its packet is not completely on any connection", r.Idx, rkNames[r.Kind])
		}
		if r.Err == nil && r.Kind != rkPing {
			w.Probe("request_success")
		}
	}
	for _, pb := range f.Active {
		if pb.Ret == 0 || m.pubDone[pb.Idx] || pb.Zombie || pb.Gen != w.Gen {
			continue
		}
		m.pubDone[pb.Idx] = true
		if pb.Accepted() && pb.FirstWire == 0 && len(pb.ExErrs) == 0 && !pb.ExClosed {
			w.Violate("C08", "success-incomplete", fmt.Sprintf("persisted-q%d", pb.QoS), "publish #%d returned nil without exchange error but its packet is not completely on any connection", pb.Idx)
		}
	}
}

func (m *monC08) Final(f *Flow) { m.Step(f) }

// ---- C05: order of publishes and resends; DUP ----

type monC05 struct {
	NopMonitor
	firstPub   [3][]*Pub      // per level: order of first complete appearance
	seenOnConn map[string]int // topic -> first connection id (this incarnation) with the complete packet
	seenGen    map[string]int // topic -> generation of that connection
	relSeen    map[int]int    // publish index -> first connection id with its PUBREL
	lastRelGen int
	relOnConn  map[[2]int]bool // (conn id, PUBREL id) seen
	lastRelSeq int
	relCount   int
	lastClose  [3]int
}

func (m *monC05) init() {
	if m.seenOnConn == nil {
		m.seenOnConn, m.seenGen, m.relSeen, m.relOnConn = map[string]int{}, map[string]int{}, map[int]int{}, map[[2]int]bool{}
	}
}

func (m *monC05) Wire(f *Flow, c *Conn, p *WirePkt) {
	m.init()
	w := f.W
	switch p.Type {
	case PUBLISH:
		if p.QoS == 0 {
			return
		}
		pb := f.byTopic[p.Topic]
		if pb == nil {
			return
		}
		firstConn, seen := m.seenOnConn[p.Topic]
		if !seen {
			m.seenOnConn[p.Topic] = c.id
			m.seenGen[p.Topic] = c.Gen
			lvl := int(pb.QoS)
			if n := len(m.firstPub[lvl]); n > 0 {
				prev := m.firstPub[lvl][n-1]
				// an adoption with nothing pending at that level starts the sequence anew
				restart := false
				for g := prev.Gen + 1; g <= pb.Gen; g++ {
					if !f.Carry[[2]int{g, lvl}] {
						restart = true
					}
				}
				if (seqOf(prev.ID)+1)&0x3fff != seqOf(p.ID) && !restart {
					w.Violate("C05", "first-appearance-order", fmt.Sprintf("q%d", lvl), "PUBLISH %#04x (publish #%d) appears first on the wire right after %#04x (publish #%d): identifiers not consecutive", p.ID, pb.Idx, prev.ID, prev.Idx)
				}
			}
			m.firstPub[lvl] = append(m.firstPub[lvl], pb)
			// a first transmission never carries DUP (within the process
			// that accepted it)
			if p.Dup && pb.Gen == c.Gen {
				w.Violate("C05", "dup-on-first", fmt.Sprintf("q%d", lvl), "first complete transmission of publish #%d (%#04x) on conn%d carries DUP", pb.Idx, p.ID, c.id)
			}
			return
		}
		// retransmission: part of the resend, which is complete when Online
		// is signalled
		if f.OnlineConn == c.id && firstConn != c.id {
			w.Violate("C05", "resend-after-online", fmt.Sprintf("q%d", pb.QoS), "conn%d: retransmission of publish #%d (%#04x) written after Online was signalled for this connection", c.id, pb.Idx, p.ID)
		}
		if c.Gen == m.seenGen[p.Topic] && c.Gen == pb.Gen {
			if !p.Dup && firstConn != c.id {
				w.Violate("C05", "dup-missing", fmt.Sprintf("q%d", pb.QoS), "conn%d: publish #%d (%#04x) was written completely on conn%d before, the retransmission lacks DUP", c.id, pb.Idx, p.ID, firstConn)
			} else if p.Dup {
				w.Probe("resend_carried_dup")
			}
		}
		if firstConn == c.id {
			w.Violate("C05", "twice-on-connection", fmt.Sprintf("q%d", pb.QoS), "conn%d carries publish #%d (%#04x) twice", c.id, pb.Idx, p.ID)
		}
		// retransmissions on one connection keep sequence order per level
		m.checkResendOrder(f, c, pb, p)
	case PUBREL:
		rp := f.byID[p.ID]
		if rp == nil {
			return
		}
		first, seen := m.relSeen[rp.Idx]
		if !seen {
			m.relSeen[rp.Idx] = c.id
			restart := false
			for g := m.lastRelGen + 1; g <= rp.Gen; g++ {
				if !f.Carry[[2]int{g, 2}] {
					restart = true
				}
			}
			m.lastRelGen = rp.Gen
			if m.relCount > 0 && (m.lastRelSeq+1)&0x3fff != seqOf(p.ID) && !restart {
				w.Violate("C05", "pubrel-order", "first", "PUBREL %#04x follows PUBREL with sequence %#04x: not the order of the PUBRECs", p.ID, m.lastRelSeq)
			}
			m.lastRelSeq = seqOf(p.ID)
			m.relCount++
			return
		}
		// the broker answers each PUBLISH with one PUBREC and the resend
		// writes each stored PUBREL once: a second PUBREL on one
		// connection is never called for
		if first == c.id || m.relOnConn[[2]int{c.id, rp.Idx}] {
			w.Violate("C05", "pubrel-twice-on-connection", "wire", "conn%d carries PUBREL %#04x twice", c.id, p.ID)
		}
		if f.OnlineConn == c.id {
			w.Violate("C05", "resend-after-online", "pubrel", "conn%d: retransmission of PUBREL %#04x written after Online was signalled for this connection", c.id, p.ID)
		}
		m.relOnConn[[2]int{c.id, rp.Idx}] = true
	}
}

func (m *monC05) checkResendOrder(f *Flow, c *Conn, pb *Pub, p *WirePkt) {
	// previous PUBLISH of the same level on this connection must have the
	// preceding sequence number or lower
	for i := len(c.Pkts) - 2; i >= 0; i-- {
		q := &c.Pkts[i]
		if q.Type != PUBLISH || q.QoS != p.QoS {
			continue
		}
		d := (seqOf(p.ID) - seqOf(q.ID)) & 0x3fff
		if d == 0 || d > 0x2000 {
			f.W.Violate("C05", "resend-order", fmt.Sprintf("q%d", p.QoS), "conn%d: PUBLISH %#04x written after %#04x", c.id, p.ID, q.ID)
		}
		return
	}
}

func (m *monC05) Step(f *Flow) {
	// exchange channels close in acceptance order per level (publishes
	// retired from the active list are closed)
	w := f.W
	var open [3]int
	open[1], open[2] = -1, -1
	for _, pb := range f.Active {
		if pb.Gen != w.Gen || pb.Zombie || !pb.Accepted() || pb.FirstWire == 0 {
			continue
		}
		lvl := pb.QoS
		if !pb.ExClosed {
			if open[lvl] < 0 {
				open[lvl] = pb.Idx
			}
		} else if open[lvl] >= 0 && f.Pubs[open[lvl]].ID != 0 && pb.ID != 0 && ((seqOf(pb.ID)-seqOf(f.Pubs[open[lvl]].ID))&0x3fff) < 0x2000 {
			w.Violate("C05", "completion-order", fmt.Sprintf("q%d", lvl), "exchange of publish #%d closed while the earlier publish #%d of the same level is still open", pb.Idx, open[lvl])
		}
	}
}

func (m *monC05) Final(f *Flow) {
	w := f.W
	// per task and real time: identifier order equals acceptance order
	for lvl := byte(1); lvl <= 2; lvl++ {
		var acc []*Pub
		for _, pb := range f.Pubs {
			if pb.QoS == lvl && pb.Accepted() && pb.ID != 0 {
				acc = append(acc, pb)
			}
		}
		for i := 0; i < len(acc); i++ {
			// neighbours only: identifiers are compared modulo 2^14
			for j := i - 300; j < i+300 && j < len(acc); j++ {
				if j < 0 {
					continue
				}
				a, b := acc[i], acc[j]
				if a.Gen != b.Gen {
					continue
				}
				before := (a.Task == b.Task && a.Idx < b.Idx) || a.Ret < b.Invoke
				if before {
					d := (seqOf(b.ID) - seqOf(a.ID)) & 0x3fff
					if d == 0 || d > 0x2000 {
						w.Violate("C05", "acceptance-order", fmt.Sprintf("q%d", lvl), "publish #%d (%s) was accepted before #%d (%s) but got identifier %#04x after %#04x", a.Idx, a.Task, b.Idx, b.Task, a.ID, b.ID)
						return
					}
				}
			}
		}
	}
}

// ---- C18: connection set-up ----

type monC18 struct {
	NopMonitor
	established map[int]bool // generation -> a handshake succeeded already
	checked     map[int]bool
	refused     []*Conn
}

func (m *monC18) Wire(f *Flow, c *Conn, p *WirePkt) {
	w := f.W
	if m.established == nil {
		m.established, m.checked = map[int]bool{}, map[int]bool{}
	}
	idx := len(c.Pkts) - 1
	if idx == 0 {
		if p.Type != CONNECT {
			w.Violate("C18", "connect-first", "other", "conn%d: first packet is %s", c.id, p.String())
			return
		}
		if p.ClientID != f.O.ClientID || p.KeepAlive != f.Cfg.KeepAlive || p.HasWill != (f.Cfg.Will.Message != nil) || p.HasUser != (f.Cfg.UserName != "" || f.Cfg.Password != nil) || p.HasPass != (f.Cfg.Password != nil) {
			w.Violate("C18", "connect-fields", "mismatch", "conn%d: CONNECT %+v does not reflect the Config / stored client identifier %q", c.id, p.Packet.String(), f.O.ClientID)
		}
		wantClean := f.O.Clean && !m.established[c.Gen]
		if f.AdoptedGen(c.Gen) {
			wantClean = f.O.Clean && !m.established[c.Gen]
		}
		if p.Clean != wantClean {
			w.Violate("C18", "clean-session", fmt.Sprintf("got-%v", p.Clean), "conn%d: CONNECT clean session=%v, want %v (Config.CleanSession=%v, earlier connection established in this process: %v)", c.id, p.Clean, wantClean, f.O.Clean, m.established[c.Gen])
		}
		if !wantClean && f.O.Clean {
			w.Probe("reconnect_without_clean")
		}
		return
	}
	if p.Type == CONNECT {
		w.Violate("C18", "connect-first", "second-connect", "conn%d: second CONNECT", c.id)
		return
	}
	// retransmission of pending transfers precedes any new request: requests
	// that need the write lock can only be written once the resend is
	// complete, which is when Online is signalled
	if (p.Type == SUBSCRIBE || p.Type == UNSUBSCRIBE || p.Type == PINGREQ || (p.Type == PUBLISH && p.QoS == 0)) && f.OnlineConn != c.id && f.sigKnown {
		w.Violate("C18", "new-before-resend", typeNames[p.Type], "conn%d: %s written before Online was signalled for this connection (resend not complete)", c.id, p.String())
	}
	// anything else needs an accepting CONNACK handed over before
	ok := c.ConnackStep != 0 && len(c.Sent) > 0 && c.Sent[0].Type == CONNACK && c.Sent[0].RC == 0
	if !ok {
		w.Violate("C18", "before-connack", typeNames[p.Type], "conn%d: %s written before a valid accepting CONNACK was handed to the client", c.id, p.String())
	}
}

func (m *monC18) Step(f *Flow) {
	if m.established == nil {
		m.established, m.checked = map[int]bool{}, map[int]bool{}
	}
	w := f.W
	// requests issued while a connect attempt was in progress fail with
	// ErrDown once it has failed: while the application sits out its backoff
	// (no attempt in progress) for a second and more, none of them may still
	// wait inside the library
	if f.readerIdleAfterFailedAttempt && f.S != nil && !f.S.dead && w.Steps%16 == 0 && f.S.Now()-f.failedAttemptTime > time.Second {
		for _, r := range f.ActiveReqs {
			if r.Invoke == 0 || r.Invoke >= f.failedAttemptStep || r.Ret != 0 || r.Dead || r.QuitAt != 0 || r.QuitK == quitClosed || r.attemptFlagged {
				continue
			}
			// (a task that was scheduled since, or sits at a park point,
			// is on its way; one that did not move at all waits inside)
			// and the write lock is free: nobody it could be queued
			// behind
			if !f.S.IsParked(r.Task) && f.S.Releases[r.Task] == r.relAtFail && f.C != nil && f.C.VerifWriteLockFree() {
				r.attemptFlagged = true
				w.Violate("C18", "blocks-through-failed-attempt", rkNames[r.Kind], "%s #%d was issued at step %d while a connect attempt was in progress; the attempt failed at step %d and %v later, with no attempt in progress since, the call still waits: want ErrDown", rkNames[r.Kind], r.Idx, r.Invoke, f.failedAttemptStep, f.S.Now()-f.failedAttemptTime)
			}
		}
	}
	for _, c := range f.recentConns() {
		if m.checked[c.id] {
			continue
		}
		if c.ConnackStep != 0 && len(c.Sent) > 0 && c.Sent[0].Type == CONNACK && c.Sent[0].RC == 0 {
			// established as soon as the client has read the CONNACK
			m.established[c.Gen] = true
			m.checked[c.id] = true
		}
	}
	// a refused connection must be closed by the client
	for _, c := range f.recentConns() {
		if c.Gen != w.Gen || m.checked[-1-c.id] {
			continue
		}
		if c.ConnackStep != 0 && len(c.Sent) > 0 && c.Sent[0].Type == CONNACK && c.Sent[0].RC != 0 {
			if c.ClosedLive {
				m.checked[-1-c.id] = true
				w.Probe("refused_connack_closed")
				m.refused = append(m.refused, c)
			} else if len(f.S.conns) > 0 && f.S.Cur() != c {
				m.checked[-1-c.id] = true
				w.Violate("C18", "refused-not-closed", fmt.Sprintf("rc%d", c.Sent[0].RC), "conn%d was refused with return code %d and never closed, yet conn%d was dialed", c.id, c.Sent[0].RC, f.S.Cur().id)
			}
		}
	}
}

// readerInvokes runs when the application calls ReadSlices again: requests
// issued after a failed connect attempt must have failed with ErrDown by now
// instead of waiting for this retry (the task had its turns: a refusal takes
// a handful of steps).
func (m *monC18) readerInvokes(f *Flow) {
	w := f.W
	for _, r := range f.ActiveReqs {
		if r.Ret != 0 || r.Dead || !r.AfterFailedAttempt || r.Invoke == 0 || r.QuitK == quitClosed || r.QuitAt != 0 {
			continue
		}
		if f.S.Releases[r.Task]-r.relAtInvoke >= 12 {
			w.Violate("C18", "blocks-after-failed-attempt", rkNames[r.Kind], "%s #%d was issued at step %d after a failed connect attempt and is still waiting at step %d when the application retries (released %d times since): want ErrDown", rkNames[r.Kind], r.Idx, r.Invoke, w.Steps, f.S.Releases[r.Task]-r.relAtInvoke)
		}
		r.AfterFailedAttempt = false
	}
}

func (m *monC18) Final(f *Flow) {
	w := f.W
	// the conforming broker's CONNACK is never at fault: an error that blames
	// it means a valid accepting CONNACK was rejected
	if f.O.HostileHandshake == 0 && len(f.Hostiles) == 0 {
		for i, e := range f.ReaderErrs {
			if s := e.Error(); strings.Contains(s, "CONNACK with") || strings.Contains(s, "want fixed CONNACK") {
				w.Violate("C18", "valid-connack-rejected", errKind(e), "ReadSlices reported %q at step %d although every CONNACK of the reference broker was well-formed and consistent with its CONNECT", s, f.ReaderErrSteps[i])
				break
			}
		}
	}
	var refusedSteps []int
	for i, e := range f.ReaderErrs {
		if mqtt.IsConnectionRefused(e) {
			refusedSteps = append(refusedSteps, f.ReaderErrSteps[i])
		}
	}
	for _, c := range m.refused {
		k := sort.SearchInts(refusedSteps, c.ConnackStep)
		if k == len(refusedSteps) && w.Inconcl == "" && f.QStartStep != 0 {
			w.Violate("C18", "refused-error", fmt.Sprintf("rc%d", c.Sent[0].RC), "conn%d was refused with return code %d but ReadSlices reported no IsConnectionRefused error afterwards", c.id, c.Sent[0].RC)
		}
	}
	// ErrDown needs a failed attempt
	for _, r := range f.Reqs {
		if r.Ret == 0 || !errors.Is(r.Err, mqtt.ErrDown) {
			continue
		}
		// ErrDown needs a failed connect attempt, which in turn needs some
		// trouble (a fault, a refusal, a lost connection) after the client
		// was last seen going online
		failedBefore := false
		lastOnline := 0
		for _, st := range f.OnlineSteps {
			if st <= r.Invoke {
				lastOnline = st
			}
		}
		for _, st := range w.TroubleSteps {
			if st <= r.Ret && st >= lastOnline {
				failedBefore = true
			}
		}
		if !failedBefore {
			w.Violate("C18", "errdown-without-failure", rkNames[r.Kind], "request #%d returned ErrDown at step %d although nothing had gone wrong since the client went online at step %d", r.Idx, r.Ret, lastOnline)
		}
	}
}

// ---- C03: exactly-once publish ----

type monC03 struct {
	NopMonitor
}

func (m *monC03) Wire(f *Flow, c *Conn, p *WirePkt) {
	w := f.W
	if p.Type != PUBLISH || p.QoS != 2 {
		return
	}
	pb := f.byTopic[p.Topic]
	if pb == nil {
		return
	}
	if pb.RelSaved && pb.RelStep < p.Step && !f.ackHanded(PUBCOMP, pb.ID, pb.Invoke) {
		// the bytes of this PUBLISH may have begun before the Save; use
		// the start of the packet conservatively: flagged only when the
		// record was a PUBREL before the first byte of this packet
		if c.firstByteStep(p.Off) > pb.RelStep {
			w.Violate("C03", "publish-after-pubrec", "wire", "conn%d: PUBLISH %#04x (publish #%d) transmitted at step %d although its PUBREC was recorded at step %d", c.id, p.ID, pb.Idx, p.Step, pb.RelStep)
		}
	}
}

func (m *monC03) Online(f *Flow, c *Conn) {
	w := f.W
	for _, pb := range f.Pubs {
		if pb.QoS != 2 || !pb.Accepted() || !pb.RelSaved || c.ConnackStep == 0 || pb.RelStep >= c.ConnackStep {
			continue
		}
		if f.ackHanded(PUBCOMP, pb.ID, pb.Invoke) {
			continue
		}
		found := false
		for _, wp := range c.Pkts {
			if wp.Type == PUBREL && wp.ID == pb.ID {
				found = true
			}
		}
		if !found {
			w.Violate("C03", "pubrel-not-resent", "online", "Online on conn%d but PUBREL %#04x (publish #%d, PUBREC recorded at step %d) was not written on it", c.id, pb.ID, pb.Idx, pb.RelStep)
		} else {
			w.Probe("pubrel_resent")
		}
	}
}

func (m *monC03) Final(f *Flow) {
	w := f.W
	_ = w
	// deliveries are counted per broker session: a session the client asked
	// to be discarded (clean session) takes the broker's exactly-once state
	// with it, a repeat in the next session is the user's choice
	n := map[string]int{}
	perEpoch := map[string]map[int]int{}
	most := map[string]int{}
	for _, d := range w.Broker.Deliv {
		if d.QoS == 2 {
			n[d.Topic]++
			if perEpoch[d.Topic] == nil {
				perEpoch[d.Topic] = map[int]int{}
			}
			perEpoch[d.Topic][d.Epoch]++
			if k := perEpoch[d.Topic][d.Epoch]; k > most[d.Topic] {
				most[d.Topic] = k
			}
		}
	}
	for _, pb := range f.Pubs {
		if pb.QoS != 2 {
			continue
		}
		if most[pb.Topic] > 1 {
			w.Violate("C03", "delivered-twice", "broker", "exactly-once publish #%d (%s) reached the broker's subscribers %d times within one session", pb.Idx, pb.Topic, most[pb.Topic])
		}
		if pb.Accepted() && pb.ExClosed && n[pb.Topic] == 0 {
			w.Violate("C03", "completed-undelivered", "broker", "exactly-once publish #%d (%s) completed but never reached the broker's subscribers", pb.Idx, pb.Topic)
		}
	}
}

// ---- C17: identifiers unique and bounded ----

type monC17 struct {
	NopMonitor
	done map[int]bool
}

func (m *monC17) Wire(f *Flow, c *Conn, p *WirePkt) {
	w := f.W
	switch p.Type {
	case PUBLISH:
		if p.QoS == 0 {
			return
		}
		pb := f.byTopic[p.Topic]
		if pb == nil {
			return
		}
		for o := pb.PrevHolder; o != nil && o != pb; o = nil {
			if !o.Accepted() || !o.SavedAny {
				continue
			}
			if !f.finalAckHanded(o) && o.FirstWire != 0 && !o.Deleted {
				w.Violate("C17", "identifier-collision", fmt.Sprintf("q%d", p.QoS), "PUBLISH %#04x for publish #%d while publish #%d holds the same identifier unfinished", p.ID, pb.Idx, o.Idx)
			}
		}
		for _, r := range f.ActiveReqs {
			if r.ID == p.ID && r.WireStep != 0 && r.Ret == 0 {
				w.Violate("C17", "identifier-shared", "publish-vs-request", "PUBLISH %#04x shares its identifier with pending request #%d", p.ID, r.Idx)
			}
		}
	case SUBSCRIBE, UNSUBSCRIBE:
		me := f.reqByMarker[p.Filters[0]]
		for _, r := range f.ActiveReqs {
			if r != me && r.ID == p.ID && r.WireStep != 0 && r.Ret == 0 {
				w.Violate("C17", "identifier-collision", "request", "%s %#04x while pending request #%d holds the same identifier", typeNames[p.Type], p.ID, r.Idx)
			}
		}
		for o := f.byID[p.ID]; o != nil; o = nil {
			if o.ID == p.ID && o.Accepted() && !f.finalAckHanded(o) {
				w.Violate("C17", "identifier-shared", "request-vs-publish", "%s %#04x shares its identifier with unfinished publish #%d", typeNames[p.Type], p.ID, o.Idx)
			}
		}
	}
	if p.Type != CONNECT && p.Type != PINGREQ && p.Type != DISCONNECT && !(p.Type == PUBLISH && p.QoS == 0) && p.ID == 0 {
		w.Violate("C17", "identifier-zero", typeNames[p.Type], "conn%d: %s with identifier zero", c.id, p.String())
	}
}

func (m *monC17) Final(f *Flow) {
	w := f.W
	if f.AdoptFatal != nil && strings.Contains(f.AdoptFatal.Error(), "Max is less than") && len(f.Damage) == 0 {
		// legitimate only when the pending transfers really exceed the
		// effective maximum (negative and oversized values mean 16,384)
		var pending [3]int
		for _, pb := range f.Pubs {
			if pb.Resumed || (len(f.Stops) > 0 && f.Stops[len(f.Stops)-1].Upper[pb.Idx]) {
				pending[pb.QoS]++
			}
		}
		if pending[1] <= effMax(f.O.ALOMax) && pending[2] <= effMax(f.O.EOMax) {
			w.Violate("C17", "adopt-refuses-within-maximum", fmt.Sprintf("alo%d-eo%d", sign(f.O.ALOMax), sign(f.O.EOMax)), "AdoptSession failed with %q although %d and %d pending transfers are within the effective maxima %d and %d (configured %d and %d)", f.AdoptFatal, pending[1], pending[2], effMax(f.O.ALOMax), effMax(f.O.EOMax), f.O.ALOMax, f.O.EOMax)
		}
	}
}

func sign(v int) int {
	switch {
	case v < 0:
		return -1
	case v > 0x3fff:
		return 2
	}
	return 1
}

func effMax(v int) int {
	if v < 0 || v > 0x3fff {
		return 0x4000
	}
	return v
}

func (m *monC17) Step(f *Flow) {
	w := f.W
	if m.done == nil {
		m.done = map[int]bool{}
	}
	max := [3]int{0, effMax(f.O.ALOMax), effMax(f.O.EOMax)}
	// lower bound of in-flight transfers: accepted in this incarnation (or
	// resumed, see restart families) and exchange not closed
	var inflight [3]int
	for _, pb := range f.Active {
		if pb.Accepted() && !pb.ExClosed && pb.Gen == w.Gen {
			inflight[pb.QoS]++
		}
	}
	for lvl := 1; lvl <= 2; lvl++ {
		if inflight[lvl] > max[lvl]+f.Resumed[lvl] {
			w.Violate("C17", "over-maximum", fmt.Sprintf("q%d", lvl), "%d transfers in flight at level %d, the configured maximum is %d", inflight[lvl], lvl, max[lvl])
		}
	}
	for _, pb := range f.Active {
		if pb.Ret == 0 || m.done[pb.Idx] || pb.Zombie || pb.Gen != w.Gen {
			continue
		}
		m.done[pb.Idx] = true
		if !errors.Is(pb.Err, mqtt.ErrMax) {
			if pb.Accepted() && max[pb.QoS] == 0 {
				w.Violate("C17", "zero-maximum", fmt.Sprintf("q%d", pb.QoS), "publish #%d accepted although the level's maximum is zero", pb.Idx)
			}
			continue
		}
		w.Probe("errmax_returned")
		// upper bound of transfers alive at any time during the call
		alive := f.Resumed[pb.QoS]
		for _, o := range f.Active {
			if o == pb || o.QoS != pb.QoS || o.Gen != pb.Gen || o.Invoke > pb.Ret {
				continue
			}
			if o.Ret != 0 && o.Err != nil {
				continue
			}
			if o.ExClosed && o.ExStep < pb.Invoke {
				continue
			}
			alive++
		}
		if alive < max[pb.QoS] {
			// a persisted publish that returned an error must not hold a
			// slot (C14: "was not enqueued")
			for _, o := range f.Pubs {
				if o.QoS == pb.QoS && o.Gen == pb.Gen && o.Ret != 0 && o.Ret <= pb.Invoke && o.Err != nil && !errors.Is(o.Err, mqtt.ErrMax) && !o.Zombie {
					w.Violate("C14", "rejected-but-enqueued", fmt.Sprintf("q%d", pb.QoS), "publish #%d got ErrMax with at most %d transfers of its level in flight (maximum %d) after publish #%d had returned %q: the rejected publish holds a slot", pb.Idx, alive, max[pb.QoS], o.Idx, shortErr(o.Err))
					break
				}
			}
			w.Violate("C17", "errmax-without-excess", fmt.Sprintf("q%d", pb.QoS), "publish #%d got ErrMax although at most %d transfers of its level were in flight during the call (maximum %d)", pb.Idx, alive, max[pb.QoS])
		}
		if pb.NetParks != 0 {
			w.Violate("C17", "errmax-blocked", fmt.Sprintf("q%d", pb.QoS), "publish #%d got ErrMax after waiting %d times on the network", pb.Idx, pb.NetParks)
		}
	}
}

// ---- C14: error classes ----

type monC14 struct {
	NopMonitor
	done map[int]bool
}

var allowed = map[int][]string{
	rkPublish:              {"nil", "ErrClosed", "ErrDown", "ErrCanceled", "ErrSubmit"},
	rkPublishRetained:      {"nil", "ErrClosed", "ErrDown", "ErrCanceled", "ErrSubmit"},
	rkSubscribe:            {"nil", "ErrClosed", "ErrDown", "ErrMax", "ErrCanceled", "SubscribeError", "ErrSubmit", "ErrBreak", "ErrAbandoned"},
	rkSubscribeAtMostOnce:  {"nil", "ErrClosed", "ErrDown", "ErrMax", "ErrCanceled", "SubscribeError", "ErrSubmit", "ErrBreak", "ErrAbandoned"},
	rkSubscribeAtLeastOnce: {"nil", "ErrClosed", "ErrDown", "ErrMax", "ErrCanceled", "SubscribeError", "ErrSubmit", "ErrBreak", "ErrAbandoned"},
	rkUnsubscribe:          {"nil", "ErrClosed", "ErrDown", "ErrMax", "ErrCanceled", "ErrSubmit", "ErrBreak", "ErrAbandoned"},
	rkPing:                 {"nil", "ErrClosed", "ErrDown", "ErrMax", "ErrCanceled", "ErrSubmit", "ErrBreak", "ErrAbandoned"},
}

func (m *monC14) Final(f *Flow) {
	w := f.W
	for _, r := range f.Reqs {
		if r.Ret == 0 {
			continue
		}
		cl := errClass(r.Err)
		ok := false
		for _, a := range allowed[r.Kind] {
			if a == cl {
				ok = true
			}
		}
		if !ok {
			w.Violate("C14", "undocumented-class", rkNames[r.Kind]+"-"+cl, "%s #%d returned %q which is in none of the classes documented for it", rkNames[r.Kind], r.Idx, shortErr(r.Err))
			continue
		}
		w.Probe("class_" + cl)
		switch cl {
		case "ErrClosed", "ErrDown", "ErrMax", "ErrCanceled", "IsDeny":
			// not submitted: no byte of the request on any wire
			if r.Kind != rkPing {
				marker := r.Topic
				if marker == "" {
					marker = r.Filters[0]
				}
				for _, c := range w.AllConns {
					if bytes.Contains(c.C2B, []byte(marker)) {
						w.Violate("C14", "not-submitted-but-sent", rkNames[r.Kind]+"-"+cl, "%s #%d returned %s, yet bytes of it are on conn%d", rkNames[r.Kind], r.Idx, cl, c.id)
					}
				}
			}
		case "ErrAbandoned":
			if r.Kind != rkPing && r.WireStep == 0 {
				w.Violate("C14", "abandoned-not-sent", rkNames[r.Kind], "%s #%d returned ErrAbandoned but its packet was never written completely", rkNames[r.Kind], r.Idx)
			}
		}
		if (cl == "ErrCanceled" || cl == "ErrAbandoned") && (r.QuitAt == 0 || r.QuitAt > r.Ret) {
			w.Violate("C14", "quit-class-without-quit", rkNames[r.Kind]+"-"+cl, "%s #%d returned %s although its quit channel was not closed", rkNames[r.Kind], r.Idx, cl)
		}
		if mqtt.IsDeny(r.Err) && mqtt.IsEnd(r.Err) {
			w.Violate("C14", "deny-and-end", rkNames[r.Kind], "%q is both IsDeny and IsEnd", shortErr(r.Err))
		}
	}
	// Ping: the not-submitted classes must leave no PINGREQ: compare counts
	sent := 0
	for _, c := range w.AllConns {
		for _, p := range c.Pkts {
			if p.Type == PINGREQ {
				sent++
			}
		}
	}
	may := 0
	for _, r := range f.Reqs {
		if r.Kind != rkPing {
			continue
		}
		cl := errClass(r.Err)
		if r.Ret == 0 || !(cl == "ErrClosed" || cl == "ErrDown" || cl == "ErrMax" || cl == "ErrCanceled") {
			may++
		}
	}
	if sent > may {
		w.Violate("C14", "not-submitted-but-sent", "Ping", "%d PINGREQ packets on the wire but only %d Ping calls may have submitted one", sent, may)
	}
	for _, pb := range f.Pubs {
		if pb.Ret == 0 || pb.Err == nil || pb.Zombie {
			continue
		}
		cl := errClass(pb.Err)
		if cl != "ErrClosed" && cl != "ErrMax" && cl != "IsDeny" && !errors.Is(pb.Err, ErrDiskInjected) {
			w.Violate("C14", "undocumented-class", "persisted-"+cl, "persisted publish #%d returned %q", pb.Idx, shortErr(pb.Err))
		}
		// a persisted publish that returns an error was not enqueued
		for _, c := range w.AllConns {
			if bytes.Contains(c.C2B, []byte(pb.Topic)) {
				w.Violate("C14", "rejected-but-sent", "persisted-"+cl, "persisted publish #%d returned %q, yet it was transmitted on conn%d", pb.Idx, shortErr(pb.Err), c.id)
			}
		}
	}
}

// ---- C11: every request completes and gets its own response ----

type monC11 struct {
	NopMonitor
	done map[int]bool
}

func (m *monC11) Step(f *Flow) {
	if f.S != nil && !f.S.dead && f.W.Steps%16 == 0 {
		m.quitHonoured(f)
	}
	w := f.W
	if m.done == nil {
		m.done = map[int]bool{}
	}
	for _, r := range f.ActiveReqs {
		if r.Ret == 0 || m.done[r.Idx] {
			continue
		}
		m.done[r.Idx] = true
		switch r.Kind {
		case rkSubscribe, rkSubscribeAtMostOnce, rkSubscribeAtLeastOnce, rkUnsubscribe:
			want := byte(SUBACK)
			if r.Kind == rkUnsubscribe {
				want = UNSUBACK
			}
			var se mqtt.SubscribeError
			isSE := errors.As(r.Err, &se)
			if r.Err == nil || isSE {
				var ans *SentPkt
				for _, h := range f.HandedAcks(want, r.ID) {
					if r.WireStep != 0 && h.SentStep >= r.WireStep && h.HandStep <= r.Ret {
						ans = &h.C.Sent[h.Idx]
					}
				}
				if ans == nil {
					w.Violate("C11", "result-without-response", rkNames[r.Kind], "%s #%d (id %#04x) returned %q but no %s for it had been handed to the client", rkNames[r.Kind], r.Idx, r.ID, shortErr(r.Err), typeNames[want])
					continue
				}
				w.Probe("answered_request")
				if want == SUBACK {
					var failed []string
					for i, code := range ans.Codes {
						if code == 0x80 && i < len(r.Filters) {
							failed = append(failed, r.Filters[i])
						}
					}
					if strings.Join(failed, "\x00") != strings.Join([]string(se), "\x00") {
						w.Violate("C11", "wrong-filters", rkNames[r.Kind], "%s #%d: broker failed filters %q, the call reported %q", rkNames[r.Kind], r.Idx, failed, []string(se))
					}
					if len(failed) > 0 {
						w.Probe("subscribe_error_mapped")
					}
				}
			}
		}
	}
}

// quitHonoured: a closed quit wakes its call at once (every wait of a request is
// a select with quit in it). A call that has not moved for a long stretch of
// steps after its quit was closed, and sits at no park point, waits somewhere
// without looking at quit.
func (m *monC11) quitHonoured(f *Flow) {
	w := f.W
	for _, r := range f.ActiveReqs {
		// (one wait in lockWrite looks at quit only every 20 ms: judged in
		// simulated time)
		if r.QuitAt == 0 || r.Ret != 0 || r.Dead || w.Steps-r.QuitAt < 60 || f.S.Now()-r.quitTime < 2*time.Second || r.quitFlagged {
			continue
		}
		if f.S.Releases[r.Task] == r.relAtQuit && !f.S.IsParked(r.Task) {
			r.quitFlagged = true
			w.Violate("C11", "quit-ignored", rkNames[r.Kind], "%s #%d: its quit was closed at step %d; %d steps and %v later the call has neither returned nor reached any scheduling point", rkNames[r.Kind], r.Idx, r.QuitAt, w.Steps-r.QuitAt, f.S.Now()-r.quitTime)
		}
	}
}

func (m *monC11) Final(f *Flow) {
	if f.O.Closers > 0 {
		return // liveness is not asked of a client that was closed
	}
	m.Step(f)
	w := f.W
	if w.Inconcl != "" || f.QStartStep == 0 {
		return
	}
	// PINGRESP carries no identifier and the source documents that a
	// wandering pong of an abandoned ping is tolerated: each successful
	// Ping needs a PINGRESP of its own handed over before it returned.
	var pongSteps, nilRets []int
	for _, c := range w.AllConns {
		for i := range c.Sent {
			if c.Sent[i].Type == PINGRESP && c.HandStep[i] != 0 {
				pongSteps = append(pongSteps, c.HandStep[i])
			}
		}
	}
	for _, r := range f.Reqs {
		if r.Kind == rkPing && r.Ret != 0 && r.Err == nil {
			nilRets = append(nilRets, r.Ret)
		}
	}
	sort.Ints(pongSteps)
	sort.Ints(nilRets)
	for i, ret := range nilRets {
		n := sort.SearchInts(pongSteps, ret+1)
		if n < i+1 {
			w.Violate("C11", "response-shared", "Ping", "the %d. successful Ping returned at step %d when only %d PINGRESP packets had been handed to the client", i+1, ret, n)
			break
		}
		w.Probe("answered_ping")
	}
	for _, r := range f.Reqs {
		if r.Invoke != 0 && r.Ret == 0 {
			w.Violate("C11", "never-returned", rkNames[r.Kind]+f.stuckWhere(), "%s #%d (quit kind %d, id %#04x, written at step %d) had not returned when the quiescence phase ended after %v; task parked at %q", rkNames[r.Kind], r.Idx, r.QuitK, r.ID, r.WireStep, f.S.Now()-f.QStartTime, f.S.FinalParks[r.Task])
			return
		}
	}
}

func sortedKeys(m map[string]int) []string {
	keys := make([]string, 0, len(m))
	for k := range m {
		keys = append(keys, k)
	}
	sort.Strings(keys)
	return keys
}

// ---- C06: inbound messages byte-exact under any fragmentation ----

// monC06 is only meaningful in runs without connection loss: the returned
// sequence must equal the sent sequence and no error is expected at all.
type monC06 struct {
	NopMonitor
	pos map[int]int // per connection: index in Sent after the last matched PUBLISH
}

// aligned is the oracle for runs with connection loss: per connection, what
// ReadSlices returns follows the PUBLISH packets the broker queued on it, in
// order; the only packets it may pass over are exactly-once retransmissions of a
// message the application was handed before (the suppressed duplicate). What
// comes after a skipped BigMessage or a suppressed duplicate must not be lost.
func (m *monC06) aligned(f *Flow, r *Recv) {
	w := f.W
	if r.Conn < 0 || r.Conn >= len(w.AllConns) || f.S == nil || f.S.dead {
		return
	}
	c := w.AllConns[r.Conn]
	if c.Hostile != nil || c.Gen != w.Gen {
		return
	}
	if m.pos == nil {
		m.pos = map[int]int{}
	}
	for i := m.pos[c.id]; i < len(c.Sent); i++ {
		sp := &c.Sent[i]
		if sp.Type != PUBLISH {
			continue
		}
		if sp.Topic == r.Topic {
			m.pos[c.id] = i + 1
			w.Probe("return_matches_stream")
			if r.Big && r.BigSize != len(sp.Payload) {
				w.Violate("C06", "wrong-size", "big-redelivery", "message %d: BigMessage.Size %d, the broker sent %d payload bytes", r.Idx, r.BigSize, len(sp.Payload))
			} else if (!r.Big || (r.BigRead && r.BigErr == nil)) && !bytes.Equal(r.Msg, sp.Payload) {
				w.Violate("C06", "wrong-content", "redelivery", "message %d (%q): the %d bytes returned differ from the %d payload bytes sent on conn%d", r.Idx, trunc(r.Topic, 24), len(r.Msg), len(sp.Payload), c.id)
			}
			return
		}
		// passed over: legitimate only for a suppressed duplicate
		suppressed := false
		if sp.QoS == 2 && sp.Dup {
			for _, x := range f.Recvs[:r.Idx] {
				if x.Topic == sp.Topic {
					suppressed = true
					w.Probe("duplicate_suppressed")
					if len(sp.Payload) > f.O.ReadBuf {
						w.Probe("big_duplicate_suppressed")
					}
					break
				}
			}
		}
		if !suppressed {
			w.Violate("C06", "passed-over", fmt.Sprintf("q%d", sp.QoS), "conn%d: ReadSlices returned %q although the PUBLISH %q (q%d, id %#04x, %d payload bytes) queued before it on the same connection was never returned (read buffer %d)", c.id, trunc(r.Topic, 24), trunc(sp.Topic, 24), sp.QoS, sp.ID, len(sp.Payload), f.O.ReadBuf)
			m.pos[c.id] = i + 1
			return
		}
	}
	w.Violate("C06", "not-in-stream", "recv", "conn%d: ReadSlices returned %q which the broker did not queue on that connection after the previous return", c.id, trunc(r.Topic, 24))
}

func (m *monC06) Recv(f *Flow, r *Recv) {
	if !f.StrictInbound {
		m.aligned(f, r)
		return
	}
	w := f.W
	sess := w.Broker.Sessions[f.O.ClientID]
	if sess == nil || r.Idx >= len(sess.Out) {
		w.Violate("C06", "surplus-message", "recv", "ReadSlices returned message %d (%q) but the broker sent only %d", r.Idx, trunc(r.Topic, 32), len(sess.Out))
		return
	}
	o := sess.Out[r.Idx]
	kind := "small"
	if r.Big {
		kind = "big"
	}
	if r.Topic != o.Topic {
		w.Violate("C06", "wrong-topic", kind, "message %d: got topic %q, the broker sent %q (q%d, %d payload bytes, read buffer %d)", r.Idx, trunc(r.Topic, 40), trunc(o.Topic, 40), o.QoS, len(o.Payload), f.O.ReadBuf)
		return
	}
	if r.Big {
		w.Probe("big_message")
		if r.BigSize != len(o.Payload) {
			w.Violate("C06", "wrong-size", kind, "message %d: BigMessage.Size %d, the broker sent %d payload bytes (read buffer %d, topic %d bytes, q%d)", r.Idx, r.BigSize, len(o.Payload), f.O.ReadBuf, len(o.Topic), o.QoS)
			return
		}
		if r.BigRead {
			if r.BigErr != nil {
				w.Violate("C06", "readall-error", kind, "message %d: ReadAll failed: %v", r.Idx, r.BigErr)
			} else if !bytes.Equal(r.Msg, o.Payload) {
				w.Violate("C06", "wrong-content", kind, "message %d: ReadAll content differs from the %d payload bytes sent", r.Idx, len(o.Payload))
			}
		} else {
			w.Probe("big_message_skipped")
		}
		return
	}
	if !bytes.Equal(r.Msg, o.Payload) {
		w.Violate("C06", "wrong-content", kind, "message %d (%q): %d bytes returned differ from the %d payload bytes sent (read buffer %d)", r.Idx, trunc(r.Topic, 24), len(r.Msg), len(o.Payload), f.O.ReadBuf)
	}
}

func (m *monC06) Final(f *Flow) {
	if !f.StrictInbound {
		return
	}
	w := f.W
	if len(f.ReaderErrs) > 0 {
		e := f.ReaderErrs[0]
		if !errors.Is(e, mqtt.ErrClosed) && !errors.Is(e, errDead) {
			w.Violate("C06", "unexpected-error", errKind(e), "ReadSlices failed although the stream was well-formed and every expiry saw progress: %v (read buffer %d, PauseTimeout %v)", e, f.O.ReadBuf, f.O.PauseTimeout)
			return
		}
	}
	if w.Inconcl != "" || f.QStartStep == 0 {
		return
	}
	if len(f.Recvs) != f.InSent {
		w.Violate("C06", "missing-message", "count", "the broker sent %d messages, ReadSlices returned %d", f.InSent, len(f.Recvs))
	}
	if sess := w.Broker.Sessions[f.O.ClientID]; sess != nil {
		for _, o := range sess.Out {
			if (o.QoS == 1 && o.PubackN != 1) || (o.QoS == 2 && (o.PubrecN != 1 || o.PubcompN != 1)) {
				w.Violate("C06", "acknowledgements", fmt.Sprintf("q%d", o.QoS), "message %q (id %#04x): PUBACK %d PUBREC %d PUBCOMP %d", trunc(o.Topic, 24), o.ID, o.PubackN, o.PubrecN, o.PubcompN)
				break
			}
		}
	}
}

// errKind is a coarse, stable discriminator of an error text.
func errKind(e error) string {
	s := e.Error()
	switch {
	case strings.Contains(s, "protocol violation"):
		return "protocol-reset"
	case strings.Contains(s, "timeout") || strings.Contains(s, "deadline"):
		return "timeout"
	case strings.Contains(s, "EOF"):
		return "eof"
	case strings.Contains(s, "persist") || strings.Contains(s, "storage"):
		return "storage"
	}
	return "other"
}

// ---- C07: acknowledgements only after the application took ownership ----

type monC07 struct {
	NopMonitor
}

func (m *monC07) Wire(f *Flow, c *Conn, p *WirePkt) {
	if p.Type != PUBACK && p.Type != PUBREC {
		return
	}
	w := f.W
	want := byte(1)
	if p.Type == PUBREC {
		want = 2
	}
	// The message the acknowledgement is for. Acknowledgements go out in the
	// order of the returns, and identifiers are reused: the oldest return
	// with that identifier which has no acknowledgement on the wire yet.
	// Without one it repeats an earlier acknowledgement (a suppressed
	// exactly-once duplicate), which is in order only if the broker's open
	// transaction with that identifier was returned at some time.
	var r *Recv
	for _, x := range f.Recvs {
		if x.Out != nil && x.Out.ID == p.ID && x.Out.QoS == want && x.AckWire == 0 {
			r = x
			break
		}
	}
	if r == nil {
		var open *OutMsg
		if sess := w.Broker.Sessions[f.O.ClientID]; sess != nil {
			for _, o := range sess.Out {
				if o.ID == p.ID && o.QoS == want && o.Stage == 1 && o.Sends > 0 {
					open = o
				}
			}
		}
		for i := len(f.Recvs) - 1; i >= 0; i-- {
			x := f.Recvs[i]
			if open != nil && x.Out == open {
				r = x
				break
			}
			if open == nil && x.Out != nil && x.Out.ID == p.ID && x.Out.QoS == want {
				r = x
				break
			}
		}
	}
	if r == nil {
		// never returned: only a broker identifier the client has no
		// business acknowledging
		sent := false
		if sess := w.Broker.Sessions[f.O.ClientID]; sess != nil {
			for _, o := range sess.Out {
				if o.ID == p.ID && o.QoS == want && o.Sends > 0 {
					sent = true
				}
			}
		}
		what := "unsolicited"
		if sent {
			what = "undelivered"
		}
		if w.Broker.Resets > 0 {
			// a discarded session (clean session) leaves the client with
			// reception records and a pending acknowledgement of messages
			// the new session knows nothing about
			w.Probe("ack_after_session_reset")
			return
		}
		w.Violate("C07", "ack-without-return", what+"-"+typeNames[p.Type], "conn%d: %s written but no message with that identifier was ever returned by ReadSlices", c.id, p.String())
		return
	}
	if r.AckWire == 0 {
		r.AckWire = w.Steps
	}
	first := c.firstByteStep(p.Off)
	if r.NextInvoke == 0 || r.NextInvoke > first {
		w.Violate("C07", "ack-before-ownership", typeNames[p.Type], "conn%d: %s written at step %d while the application still held message %d (returned at step %d, next ReadSlices at step %d)", c.id, p.String(), first, r.Idx, r.Step, r.NextInvoke)
		return
	}
	if c.id != r.Conn {
		w.Probe("ack_on_new_connection")
	}
	w.Probe("ack_after_ownership")
}

func (m *monC07) Final(f *Flow) {
	if f.O.Closers > 0 {
		return // liveness is not asked of a client that was closed
	}
	w := f.W
	if w.Inconcl != "" || f.QStartStep == 0 {
		return
	}
	current := map[*OutMsg]bool{}
	if sess := w.Broker.Sessions[f.O.ClientID]; sess != nil {
		for _, o := range sess.Out {
			current[o] = true
		}
	}
	for _, r := range f.Recvs {
		if r.Out == nil || r.Out.QoS == 0 || r.Gen != w.Gen {
			continue
		}
		if !current[r.Out] {
			continue // its session was discarded (clean session): nobody is left to acknowledge to
		}
		if (r.Out.QoS == 1 && r.Out.PubackN == 0) || (r.Out.QoS == 2 && r.Out.PubrecN == 0) {
			w.Violate("C07", "never-acknowledged", fmt.Sprintf("q%d%s", r.Out.QoS, f.stuckWhere()), "message %d (%q, id %#04x) was returned at step %d but never acknowledged; the quiescence phase ended after %v", r.Idx, trunc(r.Topic, 24), r.Out.ID, r.Step, f.S.Now()-f.QStartTime)
			return
		}
	}
}

// ---- C04: exactly-once reception ----

type monC04 struct {
	NopMonitor
}

func (m *monC04) Recv(f *Flow, r *Recv) {
	if r.Out == nil || r.Out.QoS != 2 {
		return
	}
	w := f.W
	if st, owned := f.Owned[r.Out.ID]; owned {
		w.Violate("C04", "returned-while-owned", "recv", "ReadSlices returned message %d (%q, id %#04x) again although the application owns it since step %d (marker stored) and no PUBREL ended the cycle", r.Idx, trunc(r.Topic, 24), r.Out.ID, st)
	}
	if r.Out.Sends > 1 {
		w.Probe("q2_retransmission_seen")
	}
	// Ownership is taken by the very call that returned r: any earlier
	// return of the same message by this process was followed by a
	// ReadSlices invocation. The reception record may be delayed by storage
	// errors (the call fails and retries), never skipped, and the pending
	// PUBREC survives connection loss: within one process a retransmission
	// is not returned again. (After a restart the documented window of a
	// failed record Save allows it.)
	// Across restarts: the PUBREC for a return goes on the wire only after
	// the reception record was stored, so a message whose PUBREC was written
	// is not returned again by any later incarnation on that Persistence.
	// (A reception record that was altered or truncated, not removed, still
	// marks the reception — "the mere existence of a record marks the
	// reception", client.go onPUBLISH — so runs whose only damage is of that
	// kind keep this oracle.)
	if f.S != nil && !f.S.dead && (len(f.DamagedGen) == 0 || f.markerDamageOnly()) {
		for _, x := range f.Recvs[:r.Idx] {
			if x.Out == r.Out && x.Gen != r.Gen && x.AckWire != 0 && w.Broker.Resets == 0 {
				w.Violate("C04", "returned-twice", "after-pubrec-restart", "ReadSlices (incarnation %d) returned message %d (%q, id %#04x) although incarnation %d had written its PUBREC at step %d, which comes after the reception record: the record was not there at the restart", r.Gen, r.Idx, trunc(r.Topic, 24), r.Out.ID, x.Gen, x.AckWire)
				break
			}
		}
	}
	if f.S != nil && !f.S.dead {
		for _, x := range f.Recvs[:r.Idx] {
			if x.Out == r.Out && x.Gen == r.Gen && x.NextInvoke != 0 {
				w.Violate("C04", "returned-twice", "same-process", "ReadSlices returned message %d (%q, id %#04x, %d bytes) which the same process had been handed as message %d at step %d (ownership taken at step %d); the broker sent it %d times and its PUBREL never ended the cycle", r.Idx, trunc(r.Topic, 24), r.Out.ID, len(r.Out.Payload), x.Idx, x.Step, x.NextInvoke, r.Out.Sends)
				break
			}
		}
	}
}

func (m *monC04) Final(f *Flow) {
	if f.O.Closers > 0 {
		return // liveness is not asked of a client that was closed
	}
	w := f.W
	if w.Inconcl != "" || f.QStartStep == 0 {
		return
	}
	sess := w.Broker.Sessions[f.O.ClientID]
	if sess == nil {
		return
	}
	// a message the client confirmed (PUBREC) was handed to the application
	// at some point: a reception record left over from a finished cycle
	// must not swallow the next message with that identifier
	if !f.O.Clean && len(f.DamagedGen) == 0 && len(f.Hostiles) == 0 {
		for _, o := range sess.Out {
			if o.QoS != 2 || o.PubrecN == 0 {
				continue
			}
			returned := false
			for _, r := range f.Recvs {
				if r.Out == o {
					returned = true
					break
				}
			}
			if !returned {
				w.Violate("C04", "confirmed-never-returned", "q2", "the client answered the PUBLISH %q (id %#04x, sent %d times) with PUBREC %d times but ReadSlices never returned it: a reception record of an earlier cycle with that identifier was still in place", trunc(o.Topic, 24), o.ID, o.Sends, o.PubrecN)
				break
			}
		}
	}
	for _, o := range sess.Out {
		if o.QoS == 2 && o.Stage != 3 && o.Sends > 0 {
			w.Violate("C04", "handshake-incomplete", fmt.Sprintf("stage%d%s", o.Stage, f.stuckWhere()), "the broker's exactly-once handshake for %q (id %#04x) is stuck at stage %d (PUBLISH sent %d times, PUBREC received %d, PUBCOMP %d) when the quiescence phase ended after %v", trunc(o.Topic, 24), o.ID, o.Stage, o.Sends, o.PubrecN, o.PubcompN, f.S.Now()-f.QStartTime)
			return
		}
		if o.QoS == 2 && o.Sends > 1 && o.Stage == 3 {
			w.Probe("q2_duplicate_completed")
		}
	}
}

// ---- C10: the read routine never wedges ----

type monC10 struct {
	NopMonitor
}

func (m *monC10) Final(f *Flow) {
	w := f.W
	o := &f.O
	effMin := o.RWMin
	if effMin == 0 {
		effMin = 1e9
	}
	if effMin < 0 {
		effMin = 0
	}
	effMax := o.RWMax
	if effMax < effMin {
		effMax = effMin
	}
	for _, b := range f.Backoffs {
		closed := errors.Is(b.Err, mqtt.ErrClosed)
		if b.NilCh != closed {
			w.Violate("C10", "backoff-nil", fmt.Sprintf("nil-%v", b.NilCh), "ReadBackoff(%q) returned a nil channel: %v", shortErr(b.Err), b.NilCh)
			continue
		}
		if b.NilCh {
			continue
		}
		if b.Wait-b.Sched > effMax && b.Wait-b.Sched > 1e9 {
			// one second is the library's pause for storage trouble
			w.Violate("C10", "backoff-long", "wait", "ReadBackoff(%q) blocked for %v, ReconnectWaitMax is %v (effective %v)", shortErr(b.Err), b.Wait, o.RWMax, effMax)
		}
		if mqtt.IsConnectionRefused(b.Err) && (b.Wait < effMax || b.Wait-b.Sched > effMax) {
			w.Violate("C10", "backoff-refused", "wait", "ReadBackoff for a refused connection blocked for %v, ReconnectWaitMax is %v (effective %v)", b.Wait, o.RWMax, effMax)
		}
		if !b.Online && !mqtt.IsConnectionRefused(b.Err) && b.Wait < effMin && w.Faults["disk_err_before_L"]+w.Faults["disk_err_before_S"]+w.Faults["disk_err_before_D"] == 0 {
			w.Violate("C10", "backoff-short", "wait", "ReadBackoff(%q) after connection loss blocked for %v only, ReconnectWaitMin is %v (effective %v)", shortErr(b.Err), b.Wait, o.RWMin, effMin)
		}
		w.Probe("backoff_checked")
	}
	if w.Inconcl != "" || f.QStartStep == 0 || f.goalReached() || f.O.Closers > 0 {
		return
	}
	// the quiescence phase ended without its goal: the read routine (or
	// what it owes) is stuck
	what := "other"
	if sess := w.Broker.Sessions[o.ClientID]; sess != nil {
		for _, m := range sess.Out {
			if m.Stage != 3 {
				what = "inbound"
			}
		}
	}
	for _, pb := range f.Pubs {
		if pb.Accepted() && (!pb.ExClosed || !pb.Deleted) {
			what = "outbound"
		}
	}
	for _, r := range f.Reqs {
		if r.Invoke != 0 && r.Ret == 0 {
			what = "request"
		}
	}
	w.Violate("C10", "wedged", what+f.stuckWhere(), "the quiescence phase ended after %v and %d steps without the client serving again (%s pending); ReadSlices invoked %d times, returned %d times, last return at step %d; reader: %s", f.S.Now()-f.QStartTime, w.Steps-f.QStartStep, what, f.RSInvokes, f.RSReturns, f.LastRSReturn, f.readerWhere())
}
