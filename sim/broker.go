package sim

import "fmt"

// refbroker: a conforming MQTT 3.1.1 broker as a pure state machine stepped by
// the scheduler. It keeps a delivery log (what its subscribers saw) and its
// open transactions per identifier.

type Delivery struct {
	QoS     byte
	Topic   string
	Payload []byte
	ID      uint16
	Dup     bool
	Retain  bool
	Conn    int
	Step    int
	Epoch   int // session of the sender at the time (a session reset forgets exactly-once state)
}

// OutMsg is an application message from the broker to the client.
type OutMsg struct {
	QoS     byte
	Topic   string
	Payload []byte
	ID      uint16
	Retain  bool
	// stage: 0 not yet sent, 1 PUBLISH sent awaiting PUBACK/PUBREC,
	// 2 PUBREL sent awaiting PUBCOMP, 3 done
	Stage    int
	Sends    int // PUBLISH transmissions
	RelSends int
	Seq      int // order of creation
	// observations for oracles
	PubrecN, PubcompN, PubackN int
}

type Session struct {
	ClientID string
	InQ2     map[uint16]bool // inbound exactly-once identifiers awaiting PUBREL
	Out      []*OutMsg
	nextID   uint16
	Subs     map[string]byte
	// CleanOnly: created by a CONNECT with clean session; gone with its
	// connection
	CleanOnly bool
	Epoch     int // counts the sessions of this client identifier
}

type BrokerOpts struct {
	DeliverOnRel bool                             // forward exactly-once messages on PUBREL rather than on PUBLISH
	Refuse       func(n int) byte                 // CONNACK return code for the n-th CONNECT (0 = accept)
	SubCode      func(filter string, q byte) byte // SUBACK return code policy
	Mute         bool                             // consume but never answer (withheld acknowledgements)
	NoConnack    bool                             // CONNECT is consumed and never answered
	ReuseIDs     bool                             // a new message takes the lowest identifier no open transaction holds (reuse right after PUBACK/PUBCOMP)
}

type Broker struct {
	W        *World
	Opts     BrokerOpts
	Sessions map[string]*Session
	Deliv    []Delivery
	Connects int
	Resets   int      // sessions with open state discarded (clean session)
	ProtoErr []string // protocol violations by the client
	st       map[int]*bconn
	// SkipResend: when set and true for a message, its retransmission at a
	// reconnect is postponed (the specification sets no deadline for it)
	SkipResend func(m *OutMsg) bool
	// Hold: when set, responses are held back in Held instead of being queued
	Hold          func(c *Conn, p Packet) bool
	Held          []HeldPkt
	OnIn          func(c *Conn, p *Packet) // observer of every consumed client packet
	HandshakeHook func(c *Conn) bool
}

type HeldPkt struct {
	C *Conn
	P Packet
}

type bconn struct {
	sess      *Session
	connected bool
	closed    bool
}

func NewBroker(w *World) *Broker {
	return &Broker{W: w, Sessions: map[string]*Session{}, st: map[int]*bconn{}}
}

func (b *Broker) state(c *Conn) *bconn {
	st := b.st[c.id]
	if st == nil {
		st = &bconn{}
		b.st[c.id] = st
	}
	return st
}

// SessionOf returns the session bound to the connection, if any.
func (b *Broker) SessionOf(c *Conn) *Session { return b.state(c).sess }

// Pending is whether the connection has bytes the broker has not consumed.
func (b *Broker) Pending(c *Conn) bool { return c.bpkt < len(c.Pkts) }

func (b *Broker) send(c *Conn, p Packet) {
	if b.Opts.Mute && p.Type != CONNACK {
		return
	}
	if b.Opts.NoConnack && p.Type == CONNACK {
		return // the handshake never completes
	}
	if b.Hold != nil && b.Hold(c, p) {
		b.Held = append(b.Held, HeldPkt{c, p})
		return
	}
	if c.Broken != 0 || c.closedLocal || c.Hostile != nil || c.Stalled {
		return
	}
	c.Queue(p)
}

// Release queues the i-th held packet.
func (b *Broker) Release(i int) {
	h := b.Held[i]
	b.Held = append(b.Held[:i], b.Held[i+1:]...)
	if h.C.Broken == 0 && !h.C.closedLocal {
		h.C.Queue(h.P)
	}
}

// Consume lets the broker process every complete client packet it has not
// seen yet on c.
func (b *Broker) Consume(c *Conn) {
	for c.bpkt < len(c.Pkts) {
		wp := &c.Pkts[c.bpkt]
		c.bpkt++
		c.brokerCur = wp.End
		st := b.state(c)
		if st.closed {
			continue
		}
		p := wp.Packet
		if b.OnIn != nil {
			b.OnIn(c, &p)
		}
		b.onPacket(c, st, &p)
	}
}

// Drop makes the broker never see what is unconsumed on c.
func (b *Broker) Drop(c *Conn) {
	if c.bpkt < len(c.Pkts) {
		b.W.Ev("broker", c.id, "conn%d: %d packets never reach the broker", c.id, len(c.Pkts)-c.bpkt)
	}
	c.bpkt = len(c.Pkts)
	c.brokerCur = c.parsed
}

func (b *Broker) protoErr(c *Conn, format string, a ...any) {
	msg := fmt.Sprintf(format, a...)
	b.ProtoErr = append(b.ProtoErr, fmt.Sprintf("conn%d: %s", c.id, msg))
	b.W.Ev("broker", c.id, "protocol error by client: %s", msg)
	b.state(c).closed = true
	c.Break(1)
}

func (b *Broker) onPacket(c *Conn, st *bconn, p *Packet) {
	w := b.W
	if !st.connected {
		if p.Type != CONNECT {
			b.protoErr(c, "first packet is %s", p.String())
			return
		}
		n := b.Connects
		b.Connects++
		if b.Opts.Refuse != nil {
			if rc := b.Opts.Refuse(n); rc != 0 {
				b.send(c, EncConnack(false, rc))
				st.closed = true
				w.Trouble()
				w.Ev("broker", c.id, "CONNECT refused rc=%d", rc)
				return
			}
		}
		if b.HandshakeHook != nil && b.HandshakeHook(c) {
			// a hostile reply was queued in place of CONNACK
			st.closed = true
			return
		}
		if p.ClientID == "" && !p.Clean {
			// "If the Client supplies a zero-byte ClientId with
			// CleanSession set to 0, the Server MUST respond ... with
			// return code 0x02 (Identifier rejected) and then close the
			// Network Connection" [MQTT-3.1.3-8]
			b.send(c, EncConnack(false, 2))
			st.closed = true
			w.Trouble()
			w.Ev("broker", c.id, "CONNECT with empty client identifier refused")
			return
		}
		sess := b.Sessions[p.ClientID]
		prev := sess
		if sess != nil && sess.CleanOnly {
			// "This Session lasts as long as the Network Connection.
			// State data associated with this Session MUST NOT be
			// reused in any subsequent Session" [MQTT-3.1.2-6]
			sess = nil
		}
		sp := sess != nil && !p.Clean
		if sess == nil || p.Clean {
			sess = &Session{ClientID: p.ClientID, InQ2: map[uint16]bool{}, Subs: map[string]byte{}}
			if prev != nil {
				sess.Epoch = prev.Epoch + 1
				if len(prev.Out) > 0 || len(prev.InQ2) > 0 {
					b.Resets++
					w.Probe("session_state_discarded")
				}
			}
			b.Sessions[p.ClientID] = sess
		}
		sess.CleanOnly = p.Clean
		st.sess = sess
		st.connected = true
		b.send(c, EncConnack(sp, 0))
		// retransmit what the client has not acknowledged
		for _, m := range sess.Out {
			switch m.Stage {
			case 1:
				if b.SkipResend != nil && b.SkipResend(m) {
					w.Probe("retransmission_withheld")
					w.Ev("broker", c.id, "retransmission of %q (id %#04x) postponed", trunc(m.Topic, 24), m.ID)
					continue
				}
				m.Sends++
				b.send(c, EncPublish(m.QoS, true, m.Retain, m.ID, m.Topic, m.Payload))
			case 2:
				m.RelSends++
				b.send(c, EncAck(PUBREL, m.ID))
			}
		}
		b.flushOut(c, sess)
		return
	}
	sess := st.sess
	switch p.Type {
	case CONNECT:
		b.protoErr(c, "second CONNECT")
	case PUBLISH:
		d := Delivery{QoS: p.QoS, Topic: p.Topic, Payload: p.Payload, ID: p.ID, Dup: p.Dup, Retain: p.Retain, Conn: c.id, Step: w.Steps, Epoch: sess.Epoch}
		switch p.QoS {
		case 0:
			b.Deliv = append(b.Deliv, d)
		case 1:
			b.Deliv = append(b.Deliv, d)
			b.send(c, EncAck(PUBACK, p.ID))
		case 2:
			if !sess.InQ2[p.ID] {
				sess.InQ2[p.ID] = true
				b.Deliv = append(b.Deliv, d)
			}
			b.send(c, EncAck(PUBREC, p.ID))
		}
	case PUBREL:
		delete(sess.InQ2, p.ID)
		b.send(c, EncAck(PUBCOMP, p.ID))
	case PUBACK:
		for _, m := range sess.Out {
			if m.ID == p.ID && m.QoS == 1 && m.Stage == 1 {
				m.Stage = 3
				m.PubackN++
				break
			}
		}
		b.flushOut(c, sess)
	case PUBREC:
		found := false
		for _, m := range sess.Out {
			if m.ID == p.ID && m.QoS == 2 && (m.Stage == 1 || m.Stage == 2) {
				m.Stage = 2
				m.PubrecN++
				m.RelSends++
				found = true
				break
			}
		}
		_ = found
		// PUBREL is the answer to every PUBREC
		b.send(c, EncAck(PUBREL, p.ID))
	case PUBCOMP:
		for _, m := range sess.Out {
			if m.ID == p.ID && m.QoS == 2 && m.Stage == 2 {
				m.Stage = 3
				m.PubcompN++
				break
			}
		}
		b.flushOut(c, sess)
	case SUBSCRIBE:
		codes := make([]byte, len(p.Filters))
		for i, f := range p.Filters {
			codes[i] = p.MaxQoS[i]
			if b.Opts.SubCode != nil {
				codes[i] = b.Opts.SubCode(f, p.MaxQoS[i])
			}
			if codes[i] != 0x80 {
				sess.Subs[f] = codes[i]
			}
		}
		b.send(c, EncSuback(p.ID, codes))
	case UNSUBSCRIBE:
		for _, f := range p.Filters {
			delete(sess.Subs, f)
		}
		b.send(c, EncAck(UNSUBACK, p.ID))
	case PINGREQ:
		b.send(c, EncPingresp())
	case DISCONNECT:
		st.closed = true
		c.Break(1)
	}
}

// Publish enqueues an application message for the client and sends it when
// the client is connected.
func (b *Broker) Publish(clientID string, qos byte, retain bool, topic string, payload []byte) *OutMsg {
	sess := b.Sessions[clientID]
	if sess == nil {
		sess = &Session{ClientID: clientID, InQ2: map[uint16]bool{}, Subs: map[string]byte{}}
		b.Sessions[clientID] = sess
	}
	m := &OutMsg{QoS: qos, Topic: topic, Payload: payload, Retain: retain, Seq: len(sess.Out)}
	if qos > 0 {
		// next identifier not in use by an open transaction
		if b.Opts.ReuseIDs {
			sess.nextID = 0
		}
		for {
			sess.nextID++
			if sess.nextID == 0 {
				continue
			}
			busy := false
			for _, o := range sess.Out {
				if o.QoS > 0 && o.Stage != 3 && o.ID == sess.nextID {
					busy = true
				}
			}
			if !busy {
				break
			}
		}
		m.ID = sess.nextID
		for _, o := range sess.Out {
			if o.ID == m.ID && o.QoS > 0 {
				b.W.Probe("identifier_reused")
				break
			}
		}
	}
	sess.Out = append(sess.Out, m)
	return m
}

// SetNextID positions the identifier counter (identifier reuse scenarios).
func (s *Session) SetNextID(v uint16) { s.nextID = v }

// Flush sends every not yet transmitted message to the connection in order.
func (b *Broker) Flush(c *Conn) {
	st := b.state(c)
	if st.connected && !st.closed {
		b.flushOut(c, st.sess)
	}
}

func (b *Broker) flushOut(c *Conn, sess *Session) {
	if c.Broken != 0 || c.closedLocal {
		return
	}
	for _, m := range sess.Out {
		if m.Stage == 0 {
			m.Sends++
			if m.QoS == 0 {
				m.Stage = 3
			} else {
				m.Stage = 1
			}
			b.send(c, EncPublish(m.QoS, false, m.Retain, m.ID, m.Topic, m.Payload))
		}
	}
}
