package sim

import (
	"errors"
	"fmt"
	"time"

	"github.com/pascaldekloe/mqtt"
)

// Hostile broker input (C13): protocol violations from a catalogue built
// against the client's current state, random bytes, single-field mutations of
// valid packets, and stalls in the middle of a packet.

type HostileInj struct {
	C        *Conn
	Off, End int
	Kind     string
	Definite bool // surely a protocol violation in the client's state
	Step     int
	HandStep int
	Stall    bool
	Canary   string // topic of the message queued right behind a catalogue violation
}

func be16(v uint16) []byte { return []byte{byte(v >> 8), byte(v)} }

// nextExpected returns the identifier the client expects next for the given
// acknowledgement type, or 0 when nothing of that kind is in flight.
func (f *Flow) nextExpected(typ byte) uint16 {
	var best *Pub
	for _, pb := range f.Pubs {
		if pb.ID == 0 || !pb.SavedAny || pb.Deleted {
			continue
		}
		switch typ {
		case PUBACK:
			if pb.QoS != 1 {
				continue
			}
		case PUBREC:
			if pb.QoS != 2 || pb.RelSaved {
				continue
			}
		case PUBCOMP:
			if pb.QoS != 2 || !pb.RelSaved {
				continue
			}
		}
		if best == nil || pb.Idx < best.Idx {
			best = pb
		}
	}
	if best == nil {
		return 0
	}
	return best.ID
}

// violation builds one packet that is surely illegal for the client now.
func (f *Flow) violation() (kind string, b []byte) {
	t := f.W.Tape
	switch t.Draw("hkind", 12) {
	case 0:
		typ := []byte{0, 15}[t.Draw("hres", 2)]
		return fmt.Sprintf("reserved-type-%d", typ), []byte{typ<<4 | byte(t.Draw("hflags", 16)), 0}
	case 1:
		switch t.Draw("hclient", 5) {
		case 0:
			return "inbound-CONNECT", append([]byte{0x10, 12, 0, 4, 'M', 'Q', 'T', 'T', 4, 2, 0, 0, 0, 0})
		case 1:
			return "inbound-SUBSCRIBE", []byte{0x82, 6, 0x60, 1, 0, 1, 'a', 0}
		case 2:
			return "inbound-UNSUBSCRIBE", []byte{0xa2, 5, 0x40, 1, 0, 1, 'a'}
		case 3:
			return "inbound-PINGREQ", []byte{0xc0, 0}
		default:
			return "inbound-DISCONNECT", []byte{0xe0, 0}
		}
	case 2:
		// remaining length in five bytes (the fifth terminates)
		head := []byte{0x30, 0x40, 0x90, 0xd0}[t.Draw("h5head", 4)]
		return "length-over-four-bytes", []byte{head, 0x83, 0x80, 0x80, 0x80, 0x00, 0, 1, 'x'}
	case 3:
		typ := []byte{PUBACK, PUBREC, PUBREL, PUBCOMP, SUBACK, UNSUBACK}[t.Draw("hzero", 6)]
		head := typ << 4
		if typ == PUBREL {
			head |= 2
		}
		body := []byte{0, 0}
		if typ == SUBACK {
			body = append(body, 0)
		}
		return "identifier-zero-" + typeNames[typ], append([]byte{head, byte(len(body))}, body...)
	case 4:
		return "identifier-zero-PUBLISH", []byte{0x32, 7, 0, 1, 'a', 0, 0, 'x', 'y'}
	case 5:
		// identifier from a foreign space
		switch t.Draw("hspace", 4) {
		case 0:
			return "foreign-space-PUBACK", []byte{0x40, 2, 0xc0, 0x00}
		case 1:
			return "foreign-space-PUBCOMP", []byte{0x70, 2, 0x80, 0x01}
		case 2:
			return "foreign-space-SUBACK", []byte{0x90, 3, 0x80, 0x01, 0}
		default:
			return "foreign-space-UNSUBACK", []byte{0xb0, 2, 0x60, 0x01}
		}
	case 6:
		// out of order or unsolicited
		typ := []byte{PUBACK, PUBREC, PUBCOMP}[t.Draw("hooo", 3)]
		exp := f.nextExpected(typ)
		space := uint16(0x8000)
		if typ != PUBACK {
			space = 0xc000
		}
		var id uint16
		if exp == 0 {
			// nothing in flight: any identifier is unsolicited; avoid one
			// that is merely late by staying far from the sequence
			id = space | uint16(0x2000+t.Draw("hid", 0x1000))
		} else {
			// far beyond anything that can be in flight (at most 64), so
			// that acknowledgements still under way cannot make it legal
			id = space | (exp+200+uint16(t.Draw("hskip", 3)))&0x3fff
		}
		return "out-of-order-" + typeNames[typ], append([]byte{typ << 4, 2}, be16(id)...)
	case 7:
		switch t.Draw("hlen", 5) {
		case 0:
			return "length-PUBACK-3", []byte{0x40, 3, 0x80, 0x00, 0}
		case 1:
			return "length-PUBCOMP-1", []byte{0x70, 1, 0xc0}
		case 2:
			return "length-PINGRESP-1", []byte{0xd0, 1, 0}
		case 3:
			return "length-SUBACK-2", []byte{0x90, 2, 0x60, 0x00}
		default:
			return "length-PUBLISH-topic", []byte{0x30, 3, 0, 9, 'a'}
		}
	case 8:
		code := []byte{0x03, 0x7f, 0x81, 0xff, 0x40}[t.Draw("hcode", 5)]
		// for a pending subscribe when there is one, else any identifier of the space
		id := uint16(0x6000)
		for _, r := range f.ActiveReqs {
			if r.Ret == 0 && r.WireStep != 0 && r.ID&0xe000 == 0x6000 {
				id = r.ID
			}
		}
		return "illegal-SUBACK-code", append(append([]byte{0x90, 3}, be16(id)...), code)
	case 9:
		return "qos-3", []byte{0x36, 7, 0, 1, 'a', 0, 9, 'x', 'y'}
	case 10:
		return "second-CONNACK", []byte{0x20, 2, 0, 0}
	default:
		// UNSUBACK / PUBREL with a wrong body length
		if t.Flip("hrel", 500) {
			return "length-PUBREL-4", []byte{0x62, 4, 0, 1, 0, 0}
		}
		return "length-UNSUBACK-3", []byte{0xb0, 3, 0x40, 0x00, 0}
	}
}

func (f *Flow) hostileActions() []Action {
	w := f.W
	s := f.S
	c := s.Cur()
	if f.HostileLeft <= 0 || c == nil || !c.Alive() || w.Broker.SessionOf(c) == nil || c.Hostile != nil {
		return nil
	}
	return []Action{{Name: "hostile", Weight: 3, Run: func() {
		f.HostileLeft--
		inj := &HostileInj{C: c, Off: len(c.B2C), Step: w.Steps}
		switch w.Tape.Pick("hmode", []int{6, 2, 2, 2}) {
		case 0:
			var b []byte
			inj.Kind, b = f.violation()
			inj.Definite = true
			c.QueueRaw(b)
			// a canary right behind: a client that goes on reading after
			// the violation returns it
			inj.Canary = fmt.Sprintf("canary/%d", len(f.Hostiles))
			c.QueueRaw(EncPublish(0, false, false, 0, inj.Canary, []byte("after the violation")).Raw)
		case 1:
			n := 1 + w.Tape.Draw("hgarbage", 40)
			b := make([]byte, n)
			for i := range b {
				b[i] = byte(w.Tape.Draw("hbyte", 256))
			}
			inj.Kind = "random-bytes"
			c.QueueRaw(b)
		case 2:
			// single-field mutation of a valid packet the broker could send
			var p Packet
			switch w.Tape.Draw("hmut-pkt", 6) {
			case 0:
				p = EncAck(PUBACK, f.nextExpected(PUBACK)|0x8000)
			case 1:
				p = EncAck(PUBREC, f.nextExpected(PUBREC)|0xc000)
			case 2:
				p = EncAck(PUBCOMP, f.nextExpected(PUBCOMP)|0xc000)
			case 3:
				p = EncPublish(byte(w.Tape.Draw("hmut-q", 3)), false, false, 77, "hostile/t", []byte("payload"))
			case 4:
				p = EncSuback(0x6000, []byte{0, 1, 2})
			default:
				p = EncPingresp()
			}
			b := append([]byte{}, p.Raw...)
			i := w.Tape.Draw("hmut-pos", len(b))
			b[i] ^= byte(1 << w.Tape.Draw("hmut-bit", 8))
			inj.Kind = "mutation-" + typeNames[p.Type]
			c.QueueRaw(b)
		case 3:
			// stall in the middle of a packet
			p := EncPublish(byte(w.Tape.Draw("hstall-q", 3)), false, false, 78, "hostile/stall", make([]byte, 1+w.Tape.Draw("hstall-size", 3*f.O.ReadBuf+1)))
			k := 1 + w.Tape.Draw("hstall-cut", len(p.Raw)-1)
			inj.Kind = "stall-mid-packet"
			inj.Stall = true
			c.QueueRaw(p.Raw[:k])
			c.Stalled = true
		}
		inj.End = len(c.B2C)
		c.Hostile = inj
		f.Hostiles = append(f.Hostiles, inj)
		w.Faults["hostile_"+inj.Kind]++
		w.Trouble()
		w.Ev("hostile", c.id, "conn%d < hostile %s: % x", c.id, inj.Kind, trimBytes(c.B2C[inj.Off:inj.End], 24))
	}}}
}

func trimBytes(b []byte, n int) []byte {
	if len(b) > n {
		return b[:n]
	}
	return b
}

// hostileHandshake replaces the CONNACK of the n-th connect by a bad reply.
func (f *Flow) hostileHandshake(c *Conn) bool {
	w := f.W
	if f.HostileLeft <= 0 || !w.Tape.Flip("hhs", f.O.HostileHandshake) {
		return false
	}
	f.HostileLeft--
	inj := &HostileInj{C: c, Off: len(c.B2C), Step: w.Steps, Definite: true}
	var b []byte
	switch w.Tape.Draw("hhs-kind", 7) {
	case 0:
		inj.Kind, b = "handshake-wrong-header", []byte{0x20, 3, 0, 0, 0}
	case 1:
		inj.Kind, b = "handshake-other-packet", []byte{0xd0, 0, 0x20, 2, 0, 0}
	case 2:
		inj.Kind, b = "handshake-reserved-flags", []byte{0x20, 2, byte(2 + w.Tape.Draw("hhs-flags", 254)), 0}
	case 3:
		if f.lastConnectClean(c) {
			inj.Kind, b = "handshake-session-present-on-clean", []byte{0x20, 2, 1, 0}
		} else {
			inj.Kind, b = "handshake-wrong-header", []byte{0x21, 2, 0, 0}
		}
	case 4:
		n := 1 + w.Tape.Draw("hhs-n", 8)
		b = make([]byte, n)
		for i := range b {
			b[i] = byte(w.Tape.Draw("hbyte", 256))
		}
		if len(b) >= 2 && b[0] == 0x20 && b[1] == 2 {
			b[0] = 0x30
		}
		inj.Kind = "handshake-random-bytes"
		inj.Definite = len(b) >= 4 // fewer bytes leave the client waiting for the rest
		if !inj.Definite {
			inj.Stall = true
			c.Stalled = true
		}
	case 5:
		inj.Kind, b = "handshake-stall", []byte{0x20, 2, 0, 0}[:1+w.Tape.Draw("hhs-cut", 3)]
		inj.Definite = false
		inj.Stall = true
		c.Stalled = true
	default:
		rc := byte(1 + w.Tape.Draw("hhs-rc", 255))
		inj.Kind, b = "handshake-refused", []byte{0x20, 2, 0, rc}
	}
	c.QueueRaw(b)
	inj.End = len(c.B2C)
	c.Hostile = inj
	f.Hostiles = append(f.Hostiles, inj)
	w.Faults["hostile_"+inj.Kind]++
	w.Trouble()
	w.Ev("hostile", c.id, "conn%d < hostile %s: % x", c.id, inj.Kind, b)
	return true
}

func (f *Flow) lastConnectClean(c *Conn) bool {
	return len(c.Pkts) > 0 && c.Pkts[0].Type == CONNECT && c.Pkts[0].Clean
}

// ---- C13 ----

type monC13 struct {
	NopMonitor
	checked map[int]bool
}

func (m *monC13) Step(f *Flow) {
	w := f.W
	if len(f.Hostiles) == 0 {
		return
	}
	// input that is not surely a violation may be tolerated; the broker
	// then ends that connection so that the run goes on
	if c := f.S.Cur(); c != nil && c.Hostile != nil && !c.Hostile.Definite && !c.Hostile.Stall && c.Hostile.HandStep != 0 && w.Steps-c.Hostile.HandStep > 300 && c.Alive() {
		c.Break(1)
	}
	if m.checked == nil {
		m.checked = map[int]bool{}
	}
	// no forged progress: a completion needs its in-order acknowledgement in
	// the input, for a PUBLISH that was written
	for _, pb := range f.Active {
		if !(pb.ExClosed || pb.Deleted) || m.checked[pb.Idx] || pb.Gen != w.Gen {
			continue
		}
		m.checked[pb.Idx] = true
		if !pb.Accepted() {
			continue
		}
		want := byte(PUBACK)
		if pb.QoS == 2 {
			want = PUBCOMP
		}
		okAck := f.ackInInput(want, pb.ID, pb.Invoke)
		if !okAck {
			w.Violate("C13", "forged-progress", fmt.Sprintf("no-ack-q%d", pb.QoS), "publish #%d (id %#04x) completed although no %s with its identifier is in the broker's input", pb.Idx, pb.ID, typeNames[want])
			continue
		}
		if pb.FirstWire == 0 {
			w.Violate("C13", "forged-progress", fmt.Sprintf("never-written-q%d", pb.QoS), "publish #%d (id %#04x) completed although its PUBLISH was never written completely", pb.Idx, pb.ID)
		}
		for _, o := range f.Pubs {
			if o.QoS == pb.QoS && o.Gen == pb.Gen && o.Accepted() && o.ID != 0 && o.Idx < pb.Idx && seqOf(o.ID) < seqOf(pb.ID) && !(o.ExClosed || o.Deleted) {
				w.Violate("C13", "forged-progress", fmt.Sprintf("out-of-order-q%d", pb.QoS), "publish #%d (id %#04x) completed while the earlier publish #%d (id %#04x) of its level is still open", pb.Idx, pb.ID, o.Idx, o.ID)
			}
		}
	}
}

// ackInInput looks for the acknowledgement in the raw bytes handed to the
// client (hostile bytes are not in Conn.Sent).
func (f *Flow) ackInInput(typ byte, id uint16, since int) bool {
	if f.ackHanded(typ, id, since) {
		return true
	}
	// (reserved flag bits are not among the violations the property lists:
	// an acknowledgement of the right type and identifier counts)
	for _, h := range f.Hostiles {
		if h.End > h.C.rdCur && h.Off >= h.C.rdCur {
			continue
		}
		b := h.C.B2C[h.Off:minInt(h.End, h.C.rdCur)]
		for i := 0; i+4 <= len(b); i++ {
			if b[i]>>4 == typ && b[i+1] == 2 && b[i+2] == byte(id>>8) && b[i+3] == byte(id) {
				return true
			}
		}
	}
	return false
}

func minInt(a, b int) int {
	if a < b {
		return a
	}
	return b
}

func (m *monC13) Recv(f *Flow, r *Recv) {
	for _, h := range f.Hostiles {
		if h.Canary != "" && r.Topic == h.Canary {
			f.W.Violate("C13", "violation-tolerated", h.Kind, "conn%d: the broker sent %s (% x) and the client went on with the packet behind it (%q was returned by ReadSlices)", h.C.id, h.Kind, trimBytes(h.C.B2C[h.Off:h.End], 16), r.Topic)
		}
	}
}

func (m *monC13) Final(f *Flow) {
	w := f.W
	if len(f.Hostiles) == 0 || w.Inconcl != "" {
		return
	}
	s := f.S
	for _, h := range f.Hostiles {
		c := h.C
		if c.Gen != w.Gen {
			continue
		}
		fully := c.rdCur >= h.End
		if h.Definite && fully && c.Broken == 0 && f.QStartStep != 0 {
			// must surface as a ReadSlices error and the connection be left
			reported := false
			for i, e := range f.ReaderErrs {
				_ = e
				if f.ReaderErrSteps[i] >= h.Step {
					reported = true
				}
			}
			if !c.ClosedLive || !reported {
				w.Violate("C13", "violation-tolerated", h.Kind, "conn%d: the broker sent %s (% x) and the client read it completely, yet the connection was not reset (closed by client: %v, ReadSlices error afterwards: %v)", c.id, h.Kind, trimBytes(c.B2C[h.Off:h.End], 16), c.ClosedLive, reported)
				return
			}
			w.Probe("violation_reset")
		}
		waited := s.Now() - f.stallSince(c)
		if h.Stall && f.O.PauseTimeout != 0 && !c.ClosedLive && c.Broken == 0 && c.rdCur >= h.End &&
			waited > 2*f.O.PauseTimeout+5*time.Second && f.ReaderInEnd != "" && s.FinalParks["reader"] == "read@conn.Read" {
			// the stream stalled mid-packet: the client must have given up
			// within PauseTimeout of the last byte it got
			w.Violate("C13", "unbounded-wait", f.ReaderInEnd, "conn%d: the broker stalled in the middle of a packet (%s) and the client is still waiting %v later (PauseTimeout %v); reader in %s, parked at %q", c.id, h.Kind, s.Now()-f.stallSince(c), f.O.PauseTimeout, f.ReaderInEnd, s.FinalParks["reader"])
			return
		}
		if h.Stall && c.ClosedLive {
			w.Probe("stall_timed_out")
		}
	}
	for _, r := range f.Recvs {
		if r.Big && r.BigRead && r.BigErr != nil {
			var ne interface{ Timeout() bool }
			if errors.As(r.BigErr, &ne) && ne.Timeout() {
				w.Probe("readall_timed_out")
			}
		}
	}
	_ = mqtt.ErrClosed
}

func (f *Flow) stallSince(c *Conn) time.Duration {
	return f.LastReadTime[c.id]
}
