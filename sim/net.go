package sim

import (
	"context"
	"errors"
	"fmt"
	"io"
	"net"
	"os"
	"syscall"
	"time"

	"github.com/pascaldekloe/mqtt/verifsim"
)

// Conn is a simulated network connection as seen by the client. c2b is the
// wire log: every byte the client's Write calls were credited with.
type Conn struct {
	s  *Sim
	w  *World
	id int // index in World.AllConns

	C2B       []byte // client to broker, as accepted by Write
	brokerCur int    // prefix consumed by the broker model
	bpkt      int    // packets consumed by the broker model
	B2C       []byte // broker to client, queued
	rdCur     int    // prefix handed out by Read
	rdl, wdl  time.Time

	closedLocal bool // client called Close (or the incarnation was unwound)
	ClosedLive  bool // client called Close while the simulation ran
	Broken      int  // 0 alive, 1 peer closed (EOF after queued data), 2 reset (queued data lost)
	pipe        bool // error flavour: net.Pipe-like, else TCP-like
	Gen         int
	CloseStep   int
	OpenStep    int

	Pkts           []WirePkt // complete packets parsed from C2B
	parsed         int       // bytes of C2B covered by Pkts
	ParseErr       error
	WriteErrN      int // writes that returned an error on this connection
	credits        []creditEv
	rdlSetCur      int  // bytes handed out when the read deadline was last set
	stalled        bool // a write timed out without progress: nothing may follow
	WriteAfterFail bool
	Sent           []SentPkt
	HandStep       []int // per Sent entry: step at which the client had read it completely (0: not yet)
	handIdx        int
	ConnackStep    int // step at which the first broker packet was read completely
	OnWire         func(c *Conn, p *WirePkt)
	Hostile        *HostileInj // hostile bytes were queued: the stream is no longer the broker model's
	Stalled        bool        // the broker sends nothing more on this connection
	// Silent: a partition without reset. Nothing beyond SilentLimit reaches
	// the client, nothing the client writes reaches the broker, and neither
	// side is told.
	Silent      bool
	SilentLimit int
	SilentStep  int
	// SlowClose: Close is a park point of its own (per-run option)
	SlowClose bool
	// WriteBlocked: the peer takes nothing more and the send buffer is
	// full: a Write blocks until its deadline, a local Close or a reset
	WriteBlocked bool
	EOFSeen      bool // a Read was answered with the end of the stream
	graceWrites  int  // writes still accepted after the peer closed (kind 1)
}

// WirePkt is a complete client packet on the wire.
type WirePkt struct {
	Packet
	Off, End int // byte range in C2B
	Step     int // step at which its last byte was written
}

// SentPkt is a broker packet queued to the client.
type SentPkt struct {
	Packet
	Off, End int // byte range in B2C
	Step     int
}

type readOp struct {
	c   *Conn
	p   []byte
	n   int
	err error
}

type writeOp struct {
	c   *Conn
	p   []byte
	n   int
	err error
}

type dialOp struct {
	ctx  context.Context
	conn *Conn
	err  error
	hang bool
}

type timeoutErr struct{}

func (timeoutErr) Error() string   { return "sim: i/o timeout" }
func (timeoutErr) Timeout() bool   { return true }
func (timeoutErr) Temporary() bool { return true }

func (c *Conn) errTimeout(op string) error {
	if c.pipe {
		return os.ErrDeadlineExceeded
	}
	return &net.OpError{Op: op, Net: "tcp", Err: os.ErrDeadlineExceeded}
}

func (c *Conn) errClosed(op string) error {
	if c.pipe {
		return io.ErrClosedPipe
	}
	return &net.OpError{Op: op, Net: "tcp", Err: net.ErrClosed}
}

func (c *Conn) errBroken(op string) error {
	if op == "read" {
		if c.Broken == 1 || c.Broken == 3 {
			return io.EOF
		}
		if c.pipe {
			return io.EOF
		}
		return &net.OpError{Op: op, Net: "tcp", Err: syscall.ECONNRESET}
	}
	if c.pipe {
		return io.ErrClosedPipe
	}
	return &net.OpError{Op: op, Net: "tcp", Err: syscall.EPIPE}
}

func (c *Conn) avail() int {
	if c.Silent && c.SilentLimit < len(c.B2C) {
		return c.SilentLimit - c.rdCur
	}
	return len(c.B2C) - c.rdCur
}

// CutInsidePacket reports whether the partition cut a broker packet in two: the
// client gets to read its beginning and never its end.
func (c *Conn) CutInsidePacket() bool {
	if !c.Silent {
		return false
	}
	for i := range c.Sent {
		if c.Sent[i].Off < c.SilentLimit && c.SilentLimit < c.Sent[i].End {
			return true
		}
	}
	return false
}

// Alive is whether bytes can still travel in both directions.
func (c *Conn) Alive() bool { return !c.closedLocal && c.Broken == 0 }

func (c *Conn) Read(p []byte) (int, error) {
	s := c.s
	if s.dead || c.closedLocal {
		return 0, c.errClosed("read")
	}
	if len(p) == 0 {
		return 0, nil
	}
	op := &readOp{c: c, p: p}
	s.parkAt(verifsim.Goid(), pkRead, "conn.Read", op)
	return op.n, op.err
}

func (c *Conn) Write(p []byte) (int, error) {
	s := c.s
	if s.dead || c.closedLocal {
		return 0, c.errClosed("write")
	}
	op := &writeOp{c: c, p: p}
	s.parkAt(verifsim.Goid(), pkWrite, "conn.Write", op)
	if op.err != nil {
		c.WriteErrN++
	}
	return op.n, op.err
}

func (c *Conn) Close() error {
	if c.closedLocal {
		return c.errClosed("close")
	}
	if !c.s.dead && c.SlowClose {
		c.s.parkAt(verifsim.Goid(), pkClose, "conn.Close", nil)
		if c.closedLocal {
			return c.errClosed("close")
		}
	}
	if !c.s.dead && c.Broken == 0 && !c.Silent && c.ConnackStep != 0 {
		// reach: the client gives up a connection that works (an error of
		// its own making, such as a storage error in a packet handler)
		c.w.Probe("healthy_connection_closed_by_client")
	}
	c.closedLocal = true
	c.ClosedLive = !c.s.dead
	c.CloseStep = c.w.Steps
	c.w.Trouble()
	c.w.Ev("close", c.id, "conn%d closed by client", c.id)
	return nil
}

type simAddr struct{}

func (simAddr) Network() string { return "sim" }
func (simAddr) String() string  { return "sim" }

func (c *Conn) LocalAddr() net.Addr  { return simAddr{} }
func (c *Conn) RemoteAddr() net.Addr { return simAddr{} }
func (c *Conn) SetDeadline(t time.Time) error {
	c.rdl, c.wdl = t, t
	return nil
}
func (c *Conn) SetReadDeadline(t time.Time) error {
	if c.closedLocal {
		return c.errClosed("set")
	}
	c.rdl = t
	c.rdlSetCur = c.rdCur
	return nil
}
func (c *Conn) SetWriteDeadline(t time.Time) error {
	if c.closedLocal {
		return c.errClosed("set")
	}
	c.wdl = t
	return nil
}

type creditEv struct{ off, step int }

// firstByteStep is the step at which the byte at offset off was written.
func (c *Conn) firstByteStep(off int) int {
	st := 0
	for _, e := range c.credits {
		if e.off > off {
			break
		}
		st = e.step
	}
	return st
}

// credit appends accepted bytes to the wire log and parses complete packets.
func (c *Conn) credit(b []byte) {
	if len(b) == 0 {
		return
	}
	if c.stalled {
		c.WriteAfterFail = true
	}
	c.credits = append(c.credits, creditEv{len(c.C2B), c.w.Steps})
	c.C2B = append(c.C2B, b...)
	for c.ParseErr == nil {
		pk, n, err := ParseOne(c.C2B[c.parsed:], true)
		if err != nil {
			c.ParseErr = err
			break
		}
		if n == 0 {
			break
		}
		wp := WirePkt{Packet: *pk, Off: c.parsed, End: c.parsed + n, Step: c.w.Steps}
		c.parsed += n
		c.Pkts = append(c.Pkts, wp)
		c.w.Ev("wire", c.id, "conn%d > %s", c.id, pk.String())
		if c.OnWire != nil {
			c.OnWire(c, &c.Pkts[len(c.Pkts)-1])
		}
	}
}

// Queue appends broker bytes for the client to read.
func (c *Conn) Queue(pk Packet) {
	off := len(c.B2C)
	c.B2C = append(c.B2C, pk.Raw...)
	c.Sent = append(c.Sent, SentPkt{Packet: pk, Off: off, End: len(c.B2C), Step: c.w.Steps})
	c.HandStep = append(c.HandStep, 0)
	c.w.Ev("queue", c.id, "conn%d < %s", c.id, pk.String())
}

func (c *Conn) noteHanded() {
	for c.handIdx < len(c.Sent) && c.Sent[c.handIdx].End <= c.rdCur {
		c.HandStep[c.handIdx] = c.w.Steps
		if c.handIdx == 0 {
			c.ConnackStep = c.w.Steps
		}
		if h, ok := c.w.X.(interface{ OnHanded(*Conn, int) }); ok {
			h.OnHanded(c, c.handIdx)
		}
		c.handIdx++
	}
}

// QueueRaw appends arbitrary bytes (hostile input).
func (c *Conn) QueueRaw(b []byte) {
	c.B2C = append(c.B2C, b...)
}

// Handed is whether the broker packet ending at offset end has been read
// completely by the client.
func (c *Conn) Handed(end int) bool { return c.rdCur >= end }

// Break severs the connection from the outside. kind 1: peer closes (queued
// data stays readable, then EOF); kind 2: reset (queued data is lost).
func (c *Conn) Break(kind int) {
	if (c.Broken != 0 && !(c.Broken == 3 && kind == 2)) || c.closedLocal {
		return
	}
	c.Broken = kind
	c.CloseStep = c.w.Steps
	c.w.Trouble()
	if kind == 2 {
		c.B2C = c.B2C[:c.rdCur]
	}
	if kind == 3 {
		// half-close: the peer has sent FIN and takes nothing more
		c.WriteBlocked = true
	}
	if kind == 1 {
		// after the peer's FIN the kernel still accepts a write or two
		// before the reset comes back; those bytes go nowhere
		c.graceWrites = c.w.Tape.Draw("fin-grace", 3)
	}
	c.w.Ev("break", c.id, "conn%d broken kind=%d", c.id, kind)
}

// NetOpts are per-run transport parameters.
type NetOpts struct {
	Pipe       bool
	ShortRead  int // permille: deliver fewer bytes than available
	ReadExpiry int // permille: let a read deadline pass although data may follow
	ShortWrite int // permille: accept a prefix, then time out (needs a deadline)
	// ShortWriteProgress: short writes always accept at least one byte, so
	// that the writer has to continue and the connection stays usable
	ShortWriteProgress bool
	WriteBreak         int  // permille: accept a prefix, then fail hard
	SlowClose          bool // Close is a scheduling point of its own, released late
	DialHangForever    bool // a dial may hang also without a deadline on its context (only where somebody is going to cancel it: Close, Disconnect)
	DialFail           int  // permille
	DialHang           int  // permille (needs a deadline on the context)
	OneByteRead        int  // permille: among short reads, deliver a single byte
	// ExpiryNeedsProgress restricts injected read expiries to those that saw
	// at least one byte since the deadline was set (C06: no error expected)
	ExpiryNeedsProgress bool
}

func (s *Sim) readAction(p *park) (Action, bool) {
	op := p.op.(*readOp)
	c := op.c
	w := s.W
	if c.avail() == 0 {
		if c.Broken != 0 {
			return Action{Name: "read-eof", Weight: 10, p: p, Run: func() {
				c.EOFSeen = true
				op.err = c.errBroken("read")
				w.Ev("read", c.id, "%s conn%d -> %v", p.g, c.id, op.err)
				s.unpark(p)
			}}, true
		}
		return Action{}, false
	}
	return Action{Name: "read", Weight: 10, p: p, Run: func() {
		o := w.X.(netOptser).Net()
		av := c.avail()
		if av > len(op.p) {
			av = len(op.p)
		}
		k := av
		// a deadline may pass although bytes are under way (stall); only
		// when the deadline is armed
		if !c.rdl.IsZero() && w.FaultOK() && (!o.ExpiryNeedsProgress || (c.rdCur > c.rdlSetCur && c.ConnackStep != 0)) && w.Tape.Flip("rexp", o.ReadExpiry) {
			if c.rdCur > c.rdlSetCur {
				w.Probe("progress_making_expiry")
			}
			w.Fault("read_expiry")
			if d := time.Until(c.rdl); d > 0 {
				s.sleepExact(d)
			}
			op.err = c.errTimeout("read")
			w.Ev("read", c.id, "%s conn%d expiry with %d bytes pending", p.g, c.id, av)
			s.unpark(p)
			return
		}
		if av > 1 && w.Tape.Flip("rshort", o.ShortRead) {
			if w.Tape.Flip("r1", o.OneByteRead) {
				k = 1
			} else {
				k = 1 + w.Tape.Draw("rk", av-1)
			}
			w.Faults["short_read"]++
		}
		copy(op.p, c.B2C[c.rdCur:c.rdCur+k])
		c.rdCur += k
		c.noteHanded()
		if fl, ok := w.X.(*Flow); ok {
			fl.LastReadTime[c.id] = s.Now()
			if c.Hostile != nil && c.Hostile.HandStep == 0 && c.rdCur >= c.Hostile.End {
				c.Hostile.HandStep = w.Steps
			}
		}
		op.n = k
		w.Ev("read", c.id, "%s conn%d <- %d bytes (of %d)", p.g, c.id, k, av)
		s.unpark(p)
	}}, true
}

// sleepExact advances simulated time by d regardless of other goroutines
// reaching park points meanwhile.
func (s *Sim) sleepExact(d time.Duration) {
	s.TickTime += d
	end := time.Now().Add(d)
	for {
		left := time.Until(end)
		if left <= 0 {
			return
		}
		tm := time.NewTimer(left)
		select {
		case <-s.notify:
			tm.Stop()
		case <-tm.C:
		}
	}
}

type netOptser interface{ Net() *NetOpts }

func (s *Sim) writeAction(p *park) Action {
	op := p.op.(*writeOp)
	c := op.c
	w := s.W
	return Action{Name: "write", Weight: 10, p: p, Run: func() {
		o := w.X.(netOptser).Net()
		if c.Broken == 1 && c.graceWrites > 0 {
			c.graceWrites--
			c.credit(op.p)
			op.n = len(op.p)
			w.Probe("write_accepted_after_fin")
			w.Ev("write", c.id, "%s conn%d %d bytes accepted after the peer's FIN (lost)", p.g, c.id, op.n)
			s.unpark(p)
			return
		}
		if c.Broken != 0 {
			op.err = c.errBroken("write")
			w.Ev("write", c.id, "%s conn%d -> %v", p.g, c.id, op.err)
			s.unpark(p)
			return
		}
		n := len(op.p)
		if w.FaultOK() && !c.wdl.IsZero() && (!o.ShortWriteProgress || n >= 2) && w.Tape.Flip("wshort", o.ShortWrite) {
			// a prefix is accepted, then the deadline passes
			k := w.Tape.Draw("wk", n+1) // 0..n; n means everything but reported late is not possible: cap n-1
			if k >= n {
				k = n - 1
			}
			if k < 0 {
				k = 0
			}
			if o.ShortWriteProgress && k == 0 {
				k = 1
			}
			w.Fault("short_write_timeout")
			c.credit(op.p[:k])
			if d := time.Until(c.wdl); d > 0 {
				s.sleepExact(d)
			}
			op.n, op.err = k, c.errTimeout("write")
			if k == 0 {
				c.stalled = true
			}
			w.Ev("write", c.id, "%s conn%d %d/%d bytes then timeout", p.g, c.id, k, n)
			s.unpark(p)
			return
		}
		if w.FaultOK() && w.Tape.Flip("wbreak", o.WriteBreak) {
			k := w.Tape.Draw("wk", n)
			w.Fault("write_break")
			c.credit(op.p[:k])
			c.Break(2)
			op.n, op.err = k, c.errBroken("write")
			w.Ev("write", c.id, "%s conn%d %d/%d bytes then %v", p.g, c.id, k, n, op.err)
			s.unpark(p)
			return
		}
		c.credit(op.p)
		op.n = n
		w.Ev("write", c.id, "%s conn%d %d bytes", p.g, c.id, n)
		s.unpark(p)
	}}
}

// Dialer returns the Config.Dialer of this incarnation.
func (s *Sim) Dialer() func(ctx context.Context) (net.Conn, error) {
	return func(ctx context.Context) (net.Conn, error) {
		if s.dead {
			return nil, errDead
		}
		op := &dialOp{ctx: ctx}
		s.parkAt(verifsim.Goid(), pkDial, "dial", op)
		if op.hang {
			<-ctx.Done()
			return nil, ctx.Err()
		}
		if op.err != nil {
			return nil, op.err
		}
		return op.conn, nil
	}
}

var errDialRefused = errors.New("sim: dial: connection refused")

func (s *Sim) dialAction(p *park) Action {
	op := p.op.(*dialOp)
	w := s.W
	return Action{Name: "dial", Weight: 10, p: p, Run: func() {
		o := w.X.(netOptser).Net()
		if op.ctx.Err() != nil {
			w.Trouble()
			// the cancellation may come too late for the dialer: the
			// connection stands and is returned without error
			if w.Tape.Flip("dial-late", 300) {
				op.conn = s.NewConn(o.Pipe)
				w.Probe("dial_completed_after_cancel")
				w.Ev("dial", op.conn.id, "%s dial -> conn%d although the context ended meanwhile", p.g, op.conn.id)
				s.unpark(p)
				return
			}
			op.err = op.ctx.Err()
			w.Ev("dial", 0, "%s dial -> %v", p.g, op.err)
			s.unpark(p)
			return
		}
		if w.FaultOK() && w.Tape.Flip("dfail", o.DialFail) {
			w.Fault("dial_fail")
			op.err = errDialRefused
			if w.Tape.Flip("dfail-canceled", 200) {
				// a Dialer that gave up on a context of its own: the
				// error wraps context.Canceled though nobody closed
				// the client
				op.err = fmt.Errorf("sim: dial: %w", context.Canceled)
				w.Probe("dial_error_wraps_canceled")
			}
			w.Ev("dial", 0, "%s dial refused", p.g)
			s.unpark(p)
			return
		}
		if _, has := op.ctx.Deadline(); (has || o.DialHangForever) && w.FaultOK() && w.Tape.Flip("dhang", o.DialHang) {
			w.Fault("dial_hang")
			op.hang = true
			w.Ev("dial", 0, "%s dial hangs until context ends", p.g)
			s.unpark(p)
			return
		}
		op.conn = s.NewConn(o.Pipe)
		w.Ev("dial", op.conn.id, "%s dial -> conn%d", p.g, op.conn.id)
		s.unpark(p)
	}}
}

// NewConn creates a connection and announces it to the broker model.
func (s *Sim) NewConn(pipe bool) *Conn {
	w := s.W
	c := &Conn{s: s, w: w, id: len(w.AllConns), pipe: pipe, Gen: w.Gen, OpenStep: w.Steps}
	if o, ok := w.X.(netOptser); ok {
		c.SlowClose = o.Net().SlowClose
	}
	w.AllConns = append(w.AllConns, c)
	s.conns = append(s.conns, c)
	if h, ok := w.X.(interface{ OnConn(*Conn) }); ok {
		h.OnConn(c)
	}
	return c
}

// Cur is the newest connection of this incarnation, if any.
func (s *Sim) Cur() *Conn {
	if len(s.conns) == 0 {
		return nil
	}
	return s.conns[len(s.conns)-1]
}
