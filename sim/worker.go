package sim

import (
	"encoding/json"
	"fmt"
	"os"
	"path/filepath"
	"runtime"
	"sort"
	"testing"
	"time"
)

// BatchSpec is what the driver hands to one worker process.
type BatchSpec struct {
	Prop      string   `json:"prop"`
	Fams      []string `json:"fams,omitempty"` // restrict to these families
	SeedBase  uint64   `json:"seed_base"`
	Worker    int      `json:"worker"`
	Workers   int      `json:"workers"`
	BudgetS   float64  `json:"budget_s"`
	MaxRuns   int      `json:"max_runs"`
	Thorough  bool     `json:"thorough"`
	Out       string   `json:"out"`
	ReplayDir string   `json:"replay_dir"`
	LastFile  string   `json:"last_file"` // the spec of the run in progress (crash forensics)
	Sweeps    bool     `json:"sweeps"`
}

type FoundViolation struct {
	V        Violation `json:"violation"`
	Replay   string    `json:"replay"`
	Seed     uint64    `json:"seed"`
	TapeLen  int       `json:"tape_len"`
	OrigLen  int       `json:"orig_tape_len"`
	Confirms bool      `json:"replay_confirmed"`
}

type BatchResult struct {
	Prop        string           `json:"prop"`
	Worker      int              `json:"worker"`
	Runs        int              `json:"runs"`
	Steps       int64            `json:"steps"`
	SimTimeNS   int64            `json:"sim_time_ns"`
	SimTimeS    float64          `json:"sim_time_s"` // the sum of the runs' simulated time (nanoseconds overflow in long batches)
	WallS       float64          `json:"wall_s"`
	Faults      map[string]int   `json:"faults"`
	Probes      map[string]int   `json:"probes"`
	Inconcl     map[string]int   `json:"inconclusive"`
	Notes       map[string]int   `json:"notes"`
	PerFam      map[string]int   `json:"per_family"`
	ActHashes   []uint64         `json:"act_hashes"`
	NontrivHash []uint64         `json:"nontrivial_hashes"`
	States      []uint64         `json:"states"`
	Found       []FoundViolation `json:"found"`
	Samples     []string         `json:"samples"`
	SweepCases  int              `json:"sweep_cases"`
	Exhaustive  map[string]int   `json:"exhaustive"`
}

// ReplayFile is the on-disk form of a failing run.
type ReplayFile struct {
	Property  string    `json:"property"`
	Spec      RunSpec   `json:"spec"`
	Violation Violation `json:"violation"`
	Hash      string    `json:"event_log_hash"`
	OrigTape  int       `json:"original_tape_len"`
	Labels    []string  `json:"tape_labels,omitempty"`
	Log       []string  `json:"event_log,omitempty"`
	Toolchain string    `json:"toolchain"`
	// Crash marks the spec of a run that killed the process: there is no
	// recorded tape, the run is repeated from its seed.
	Crash bool `json:"crash,omitempty"`
}

func mix64(a, b uint64) uint64 {
	z := a + 0x9e3779b97f4a7c15*(b+1)
	z = (z ^ (z >> 30)) * 0xbf58476d1ce4e5b9
	z = (z ^ (z >> 27)) * 0x94d049bb133111eb
	return z ^ (z >> 31)
}

func hasViolation(res *RunResult, key string) bool {
	for _, v := range res.Viol {
		if v.Key() == key {
			return true
		}
	}
	return false
}

// Minimise shrinks the tape of a failing run while the same violation
// signature persists.
func Minimise(t *testing.T, spec RunSpec, tape []uint32, key string, deadline time.Time) []uint32 {
	try := func(cand []uint32) bool {
		if time.Now().After(deadline) {
			return false
		}
		s := spec
		s.Replay = true
		s.Tape = cand
		s.Verbose = false
		r := ExecRun(t, s)
		return hasViolation(&r, key)
	}
	cur := append([]uint32(nil), tape...)
	// strip trailing zeros (missing draws read as zero)
	trim := func(v []uint32) []uint32 {
		for len(v) > 0 && v[len(v)-1] == 0 {
			v = v[:len(v)-1]
		}
		return v
	}
	cur = trim(cur)
	// 1. shortest failing prefix (binary search, then verify)
	lo, hi := 0, len(cur)
	for lo < hi {
		mid := (lo + hi) / 2
		if try(cur[:mid]) {
			hi = mid
		} else {
			lo = mid + 1
		}
	}
	if hi < len(cur) && try(cur[:hi]) {
		cur = trim(append([]uint32(nil), cur[:hi]...))
	}
	improved := true
	for pass := 0; improved && pass < 6 && time.Now().Before(deadline); pass++ {
		improved = false
		// 2. zero blocks
		for _, bs := range []int{8192, 1024, 64, 16, 4, 1} {
			if bs > len(cur) && bs > 64 {
				continue
			}
			for i := 0; i < len(cur) && time.Now().Before(deadline); i += bs {
				j := i + bs
				if j > len(cur) {
					j = len(cur)
				}
				nz := false
				for _, v := range cur[i:j] {
					if v != 0 {
						nz = true
					}
				}
				if !nz {
					continue
				}
				cand := append([]uint32(nil), cur...)
				for k := i; k < j; k++ {
					cand[k] = 0
				}
				if try(cand) {
					cur = trim(cand)
					improved = true
				}
			}
		}
		// 3. delete blocks
		for _, bs := range []int{4096, 512, 32, 8, 2, 1} {
			for i := 0; i+bs <= len(cur) && time.Now().Before(deadline); {
				cand := append(append([]uint32(nil), cur[:i]...), cur[i+bs:]...)
				if try(cand) {
					cur = trim(cand)
					improved = true
				} else {
					i += bs
				}
			}
		}
		// 4. lower single values
		for i := 0; i < len(cur) && time.Now().Before(deadline); i++ {
			if cur[i] <= 1 {
				continue
			}
			for _, nv := range []uint32{1, cur[i] / 2, cur[i] - 1} {
				if nv >= cur[i] {
					continue
				}
				cand := append([]uint32(nil), cur...)
				cand[i] = nv
				if try(cand) {
					cur = cand
					improved = true
					break
				}
			}
		}
	}
	return cur
}

// WriteReplay runs the minimised tape verbosely and writes the replay file.
func WriteReplay(t *testing.T, dir string, spec RunSpec, tape []uint32, key string, origLen int) (string, *RunResult, error) {
	s := spec
	s.Replay = true
	s.Tape = tape
	s.Verbose = true
	r := ExecRun(t, s)
	var viol *Violation
	for i := range r.Viol {
		if r.Viol[i].Key() == key {
			viol = &r.Viol[i]
		}
	}
	if viol == nil {
		return "", &r, fmt.Errorf("minimised tape does not reproduce %s", key)
	}
	s.Tape = r.Tape
	rf := ReplayFile{Property: spec.Prop, Spec: s, Violation: *viol, Hash: fmt.Sprintf("%016x", r.Hash),
		OrigTape: origLen, Labels: r.Labels, Log: r.Text, Toolchain: runtime.Version()}
	if len(rf.Log) > 4000 {
		rf.Log = append(rf.Log[:2000:2000], rf.Log[len(rf.Log)-2000:]...)
	}
	os.MkdirAll(dir, 0o755)
	name := filepath.Join(dir, fmt.Sprintf("%s-%d-%08x.json", spec.Prop, spec.Seed, uint32(mix64(r.Hash, uint64(len(key))))))
	b, _ := json.MarshalIndent(rf, "", " ")
	if err := os.WriteFile(name, b, 0o644); err != nil {
		return "", &r, err
	}
	return name, &r, nil
}

// RunBatch is the body of a worker process.
func RunBatch(t *testing.T, bs BatchSpec) BatchResult {
	start := time.Now()
	res := BatchResult{Prop: bs.Prop, Worker: bs.Worker, Faults: map[string]int{}, Probes: map[string]int{},
		Inconcl: map[string]int{}, Notes: map[string]int{}, PerFam: map[string]int{}, Exhaustive: map[string]int{}}
	fams := registry[bs.Prop]
	if len(bs.Fams) > 0 {
		var sel []Family
		for _, f := range fams {
			for _, n := range bs.Fams {
				if f.Name == n {
					sel = append(sel, f)
				}
			}
		}
		fams = sel
	}
	if len(fams) == 0 {
		panic("no families for " + bs.Prop)
	}
	if !bs.Thorough {
		var sel []Family
		for _, f := range fams {
			if !f.ThoroughOnly {
				sel = append(sel, f)
			}
		}
		fams = sel
	}
	total := 0
	for _, f := range fams {
		total += f.Weight
	}
	spent := make([]float64, len(fams))
	for k := range fams {
		// families with expensive runs (hundreds of megabytes each) start
		// staggered over the workers instead of all at once
		spent[k] = float64(fams[k].Cost) * float64(bs.Worker) / 2
	}
	acts := map[uint64]struct{}{}
	nontriv := map[uint64]struct{}{}
	states := map[uint64]struct{}{}
	seenKeys := map[string]bool{}
	deadline := start.Add(time.Duration(bs.BudgetS * float64(time.Second)))

	account := func(r *RunResult) {
		res.Runs++
		res.Steps += int64(r.Steps)
		res.SimTimeNS += int64(r.SimTime)
		res.SimTimeS += r.SimTime.Seconds()
		res.PerFam[r.Spec.Fam]++
		nf := 0
		for k, v := range r.Faults {
			res.Faults[k] += v
			nf += v
		}
		for k, v := range r.Probes {
			res.Probes[k] += v
		}
		if r.Inconcl != "" {
			res.Inconcl[r.Inconcl]++
		}
		for _, n := range r.Notes {
			res.Notes[n.Key()]++
		}
		if len(acts) < 400000 {
			acts[r.ActHash] = struct{}{}
		}
		if (nf > 0 || r.Faultless) && r.Touched && len(nontriv) < 400000 {
			nontriv[r.ActHash] = struct{}{}
		}
		for s := range r.States {
			if len(states) < 400000 {
				states[s] = struct{}{}
			}
		}
		if len(res.Samples) < 3 && r.Summary != "" && (nf > 0 || res.Runs > 50) {
			res.Samples = append(res.Samples, fmt.Sprintf("%s/%s seed=%d: %s", r.Spec.Prop, r.Spec.Fam, r.Spec.Seed, r.Summary))
		}
	}

	handle := func(spec RunSpec, r *RunResult) {
		for _, v := range r.Viol {
			key := v.Key()
			if seenKeys[key] {
				continue
			}
			seenKeys[key] = true
			md := time.Now().Add(25 * time.Second)
			if bs.Thorough {
				md = time.Now().Add(60 * time.Second)
			}
			min := Minimise(t, spec, r.Tape, key, md)
			name, _, err := WriteReplay(t, bs.ReplayDir, spec, min, key, len(r.Tape))
			fv := FoundViolation{V: v, Seed: spec.Seed, OrigLen: len(r.Tape), TapeLen: len(min)}
			if err != nil {
				// fall back to the unminimised tape
				name, _, err = WriteReplay(t, bs.ReplayDir, spec, r.Tape, key, len(r.Tape))
				fv.TapeLen = len(r.Tape)
			}
			if err == nil {
				fv.Replay = name
				fv.Confirms = true
			} else {
				fv.V.Detail += " [REPLAY DID NOT REPRODUCE: " + err.Error() + "]"
			}
			res.Found = append(res.Found, fv)
		}
	}

	for i := bs.Worker; ; i += bs.Workers {
		if bs.MaxRuns > 0 && i >= bs.MaxRuns {
			break
		}
		if time.Now().After(deadline) {
			break
		}
		if len(res.Found) >= 4 {
			break
		}
		seed := mix64(bs.SeedBase, uint64(i))
		// Family choice: the one that is furthest behind its share of the
		// work done so far, measured in scheduler steps (deterministic,
		// unlike wall time) plus a fixed cost per run. Weights are shares
		// of work, not of runs: a sweep of thousands of cases or a run of
		// 100,000 steps no longer starves the other families.
		fi := 0
		if total > 0 {
			best := -1.0
			for k := range fams {
				if fams[k].Weight <= 0 {
					continue
				}
				v := spent[k] / float64(fams[k].Weight)
				if best < 0 || v < best {
					best, fi = v, k
				}
			}
		}
		fam := &fams[fi]
		spec := RunSpec{Prop: bs.Prop, Fam: fam.Name, Seed: seed, Thorough: bs.Thorough}
		LastFile = bs.LastFile
		r := ExecRun(t, spec)
		spent[fi] += float64(r.Steps + 200 + fam.Cost)
		account(&r)
		if len(r.Viol) > 0 {
			handle(spec, &r)
		}
		if fam.Sweep && r.Sweep > 0 && r.Inconcl == "" {
			complete := true
			// quick tier: a sweep of more than 1,500 cases is sampled with
			// a stride (offset from the seed), so that several base runs
			// and the other families get their turn within the budget;
			// the thorough tier runs every case
			stride, first := 1, 1
			if !bs.Thorough && r.Sweep > 1500 {
				stride = (r.Sweep + 1499) / 1500
				first = 1 + int(seed%uint64(stride))
			}
			for k := first; k <= r.Sweep; k += stride {
				if time.Now().After(deadline.Add(20*time.Second)) || len(res.Found) >= 4 {
					complete = false
					break
				}
				sp := spec
				sp.Param = k
				rk := ExecRun(t, sp)
				spent[fi] += float64(rk.Steps + 200 + fam.Cost)
				account(&rk)
				res.SweepCases++
				if len(rk.Viol) > 0 {
					handle(sp, &rk)
				}
			}
			if complete && stride > 1 {
				res.Exhaustive[fam.Name+":sampled-sweeps"]++
			} else if complete {
				res.Exhaustive[fam.Name+":complete-sweeps"]++
			} else {
				res.Exhaustive[fam.Name+":partial-sweeps"]++
			}
		}
	}
	if bs.LastFile != "" {
		os.Remove(bs.LastFile)
	}
	for h := range acts {
		res.ActHashes = append(res.ActHashes, h)
	}
	for h := range nontriv {
		res.NontrivHash = append(res.NontrivHash, h)
	}
	for h := range states {
		res.States = append(res.States, h)
	}
	sort.Slice(res.ActHashes, func(i, j int) bool { return res.ActHashes[i] < res.ActHashes[j] })
	res.WallS = time.Since(start).Seconds()
	return res
}
