package sim

import (
	"bytes"
	"fmt"
	"net"
	"sort"
	"time"

	"github.com/anishathalye/porcupine"
	"github.com/pascaldekloe/mqtt"
)

// C19: the FileSystem store on the simulated os.

const fsDir = "/sim/store/"

type fsAPI struct {
	Kind   byte // S D L I
	Key    uint
	Val    []byte // saved / loaded
	Keys   []uint
	Err    error
	Invoke int
	Ret    int
	Task   int
}

type FSWork struct {
	W     *World
	FS    *SimFS
	P     mqtt.Persistence
	Model map[uint][]byte // acknowledged content per key
	// the write in progress per task (for the post-stop oracle)
	InFlight map[int]*fsAPI
	Hist     []*fsAPI
	live     int
	valN     int
	Thorough bool
}

func (x *FSWork) value(t *Tape) []byte {
	x.valN++
	n := 0
	switch t.Pick("vsize", []int{4, 4, 2, 1, 1}) {
	case 0:
		n = 12 + t.Draw("vsmall", 40)
	case 1:
		n = 12
	case 2:
		n = 100 + t.Draw("vmid", 4000)
	case 3:
		n = 4096 + t.Draw("vbig", 100*1024)
	case 4:
		n = 13
		if x.Thorough {
			n = 1<<20 + t.Draw("vhuge", 3<<20)
		}
	}
	v := make([]byte, n)
	tag := fmt.Sprintf("value-%d|", x.valN)
	for i := range v {
		v[i] = byte('a' + (i+x.valN)%26)
	}
	copy(v, tag)
	return v
}

func split(t *Tape, v []byte) net.Buffers {
	switch t.Draw("vsplit", 3) {
	case 0:
		return net.Buffers{v}
	case 1:
		k := t.Draw("vcut", len(v)+1)
		return net.Buffers{v[:k], v[k:]}
	}
	k := len(v) - 12
	if k < 0 {
		k = 0
	}
	return net.Buffers{v[:k/2], v[k/2 : k], v[k:]}
}

var fsKeys = []uint{0x8000, 0x8001, 0x10001, 0, 0xc3ff}

// seqTask performs a drawn sequence of operations and checks each result
// against the acknowledged model (single writer: exact).
func (x *FSWork) seqTask(s *Sim, n int, faulty bool) {
	w := x.W
	t := w.Tape
	defer func() { x.live-- }()
	for i := 0; i < n; i++ {
		s.Pause("fsop")
		if s.dead {
			return
		}
		key := fsKeys[t.Draw("fskey", 3)]
		op := &fsAPI{Key: key, Invoke: w.Steps}
		switch t.Pick("fsop", []int{5, 2, 2, 1}) {
		case 0:
			op.Kind = 'S'
			op.Val = x.value(t)
			x.InFlight[0] = op
			op.Err = x.P.Save(key, split(t, op.Val))
			if s.dead {
				return
			}
			delete(x.InFlight, 0)
			if op.Err == nil {
				x.Model[key] = op.Val
			} else {
				w.Probe("save_failed")
				// a failed Save leaves the previous value in place
				x.FS.Direct = true
				got, err := x.P.Load(key)
				x.FS.Direct = false
				if err != nil || !bytes.Equal(got, x.Model[key]) {
					w.Violate("C19", "failed-save-changed-value", "load", "Save(%#x) failed with %v and Load now returns %d bytes (err %v), the previous value had %d", key, op.Err, len(got), err, len(x.Model[key]))
				}
			}
		case 1:
			op.Kind = 'D'
			x.InFlight[0] = op
			op.Err = x.P.Delete(key)
			if s.dead {
				return
			}
			delete(x.InFlight, 0)
			if op.Err == nil {
				delete(x.Model, key)
			}
		case 2:
			op.Kind = 'L'
			op.Val, op.Err = x.P.Load(key)
			if s.dead {
				return
			}
			if op.Err == nil && !bytes.Equal(op.Val, x.Model[key]) {
				w.Violate("C19", "load-mismatch", "sequential", "Load(%#x) returned %d bytes (%q...), the acknowledged value has %d", key, len(op.Val), trimBytes(op.Val, 12), len(x.Model[key]))
			}
			if op.Err == nil && (op.Val == nil) != (x.Model[key] == nil) {
				w.Violate("C19", "load-mismatch", "presence", "Load(%#x) returned nil=%v, the key is present=%v", key, op.Val == nil, x.Model[key] != nil)
			}
		case 3:
			op.Kind = 'I'
			op.Keys, op.Err = x.P.List()
			if s.dead {
				return
			}
			if op.Err == nil {
				x.checkList(op.Keys, "sequential")
			}
		}
		op.Ret = w.Steps
		x.Hist = append(x.Hist, op)
		w.Ev("fsapi", int(key), "%c %#x -> err=%v", op.Kind, key, op.Err)
	}
}

func (x *FSWork) checkList(keys []uint, where string) {
	w := x.W
	got := map[uint]bool{}
	for _, k := range keys {
		if got[k] {
			w.Violate("C19", "list-duplicate", where, "List reports key %#x twice", k)
		}
		got[k] = true
	}
	for k := range x.Model {
		if !got[k] {
			w.Violate("C19", "list-misses-key", where, "List does not report the acknowledged key %#x (got %x)", k, keys)
		}
	}
	for k := range got {
		if _, ok := x.Model[k]; !ok {
			inflight := false
			for _, op := range x.InFlight {
				if op.Key == k {
					inflight = true
				}
			}
			if !inflight {
				w.Violate("C19", "list-extra-key", where, "List reports key %#x which holds no value", k)
			}
		}
	}
}

// afterStop inspects the store through a fresh FileSystem on the frozen image.
func (x *FSWork) afterStop() {
	w := x.W
	x.FS.Direct = true
	p := mqtt.FileSystem(fsDir[:len(fsDir)-1]) // without the trailing separator: FileSystem adds it
	keys, err := p.List()
	if err != nil {
		w.Violate("C19", "after-stop", "list-error", "List after the stop failed: %v", err)
		return
	}
	listed := map[uint]bool{}
	for _, k := range keys {
		listed[k] = true
		v, err := p.Load(k)
		if err != nil || v == nil {
			w.Violate("C19", "listed-but-unloadable", "after-stop", "List reports %#x after the stop but Load returns nil=%v err=%v", k, v == nil, err)
		}
	}
	all := map[uint]bool{}
	for k := range x.Model {
		all[k] = true
	}
	for _, op := range x.InFlight {
		all[op.Key] = true
	}
	for k := range listed {
		all[k] = true
	}
	var ks []uint
	for k := range all {
		ks = append(ks, k)
	}
	sort.Slice(ks, func(i, j int) bool { return ks[i] < ks[j] })
	for _, k := range ks {
		got, err := p.Load(k)
		if err != nil {
			w.Violate("C19", "after-stop", "load-error", "Load(%#x) after the stop failed: %v", k, err)
			continue
		}
		prev := x.Model[k]
		var fl *fsAPI
		for _, op := range x.InFlight {
			if op.Key == k {
				fl = op
			}
		}
		okPrev := bytes.Equal(got, prev) && (got == nil) == (prev == nil)
		switch {
		case fl == nil:
			if !okPrev {
				w.Violate("C19", "unrelated-key-changed", "after-stop", "key %#x had no operation in progress at the stop, yet it loads %d bytes (nil=%v) instead of its %d acknowledged bytes", k, len(got), got == nil, len(prev))
			}
		case fl.Kind == 'S':
			okNew := bytes.Equal(got, fl.Val) && got != nil
			if !okPrev && !okNew {
				kind := "mixture"
				switch {
				case got == nil:
					kind = "absent"
				case len(got) == 0:
					kind = "empty"
				case len(got) < len(fl.Val) && bytes.Equal(got, fl.Val[:len(got)]):
					kind = "prefix"
				}
				w.Violate("C19", "save-not-atomic", kind, "the process stopped during Save(%#x): the key loads %d bytes, neither the previous %d nor the new %d (%s)", k, len(got), len(prev), len(fl.Val), kind)
			} else if okNew && !okPrev {
				w.Probe("stopped_save_new_value")
			} else {
				w.Probe("stopped_save_old_value")
			}
		case fl.Kind == 'D':
			if !okPrev && got != nil {
				w.Violate("C19", "delete-not-atomic", "after-stop", "the process stopped during Delete(%#x): the key loads %d bytes, neither the previous value nor absent", k, len(got))
			}
		}
		if prev != nil && fl == nil && !listed[k] {
			w.Violate("C19", "list-misses-key", "after-stop", "the acknowledged key %#x is not listed after the stop", k)
		}
	}
	x.FS.Direct = false
}

func runFS(w *World, spec *RunSpec, setup func(x *FSWork, s *Sim)) *FSWork {
	x := &FSWork{W: w, Model: map[uint][]byte{}, InFlight: map[int]*fsAPI{}, Thorough: spec.Thorough}
	w.X = x
	x.FS = NewSimFS(w)
	RunBubble(w, func(s *Sim) {
		x.FS.Attach(s)
		x.P = mqtt.FileSystem(fsDir)
		s.Done = func() bool { return x.live == 0 }
		setup(x, s)
	})
	return x
}

// crashPoints lists every (call, phase) of a completed run.
func crashPoints(calls []FSCall) [][2]int {
	var pts [][2]int
	for i, c := range calls {
		pts = append(pts, [2]int{i, 0}, [2]int{i, 1})
		if c.Kind == "write" && c.N > 1 {
			if c.N <= 4096 {
				for b := 1; b < c.N; b++ {
					pts = append(pts, [2]int{i, 2 + b})
				}
			} else {
				for _, b := range []int{1, 11, 12, 13, c.N / 3, c.N / 2, c.N - 13, c.N - 12, c.N - 1} {
					pts = append(pts, [2]int{i, 2 + b})
				}
			}
		}
	}
	return pts
}

func famFSStops(w *World, spec *RunSpec, res *RunResult) {
	seqSetup := func(x *FSWork, s *Sim) {
		n := 2 + x.W.Tape.Draw("nfsops", 6)
		x.live = 1
		s.Go("w0", func() { x.seqTask(s, n, false) })
	}
	if spec.Param == 0 {
		x := runFS(w, spec, seqSetup)
		res.Sweep = len(crashPoints(x.FS.Calls))
		if x.FS.RenameDirty > 0 {
			w.Violate("C19", "visible-before-flushed", "rename", "%d renames made a file visible under its key whose content had not been flushed (Sync) before", x.FS.RenameDirty)
		}
		res.Summary = fmt.Sprintf("fs sequential: %d api ops, %d system calls, %d crash points", len(x.Hist), len(x.FS.Calls), res.Sweep)
		res.Touched = true
		return
	}
	// the crash points come from a dry pass over the same choices
	var tape *Tape
	if spec.Replay {
		tape = ReplayTape(spec.Tape)
	} else {
		tape = NewTape(spec.Seed)
	}
	dry := NewWorld(w.T, tape, w.Prop, w.Fam)
	dx := runFS(dry, spec, seqSetup)
	pts := crashPoints(dx.FS.Calls)
	if spec.Param > len(pts) {
		return
	}
	pt := pts[spec.Param-1]
	x := &FSWork{W: w, Model: map[uint][]byte{}, InFlight: map[int]*fsAPI{}, Thorough: spec.Thorough}
	w.X = x
	x.FS = NewSimFS(w)
	x.FS.StopCall, x.FS.StopPhase = pt[0], pt[1]
	RunBubble(w, func(s *Sim) {
		x.FS.Attach(s)
		x.P = mqtt.FileSystem(fsDir)
		s.Done = func() bool { return x.live == 0 }
		seqSetup(x, s)
	})
	x.afterStop()
	// the next process goes on with what it finds (leftovers of the
	// interrupted Save included)
	x.FS.StopCall = -1
	x.FS.Direct = true
	p2 := mqtt.FileSystem(fsDir)
	for _, k := range fsKeys {
		if v, err := p2.Load(k); err == nil && v != nil {
			x.Model[k] = v
		} else {
			delete(x.Model, k)
		}
	}
	x.FS.Direct = false
	x.InFlight = map[int]*fsAPI{}
	RunBubble(w, func(s *Sim) {
		x.FS.Attach(s)
		x.P = mqtt.FileSystem(fsDir)
		s.Done = func() bool { return x.live == 0 }
		n := 2 + w.Tape.Draw("nfsops2", 4)
		x.live = 1
		s.Go("w1", func() { x.seqTask(s, n, false) })
	})
	x.FS.Direct = true
	for _, k := range fsKeys {
		got, err := x.P.Load(k)
		if err != nil || !bytes.Equal(got, x.Model[k]) {
			w.Violate("C19", "store-diverged", "after-restart", "after a kill and a restart key %#x loads %d bytes (err %v), acknowledged are %d", k, len(got), err, len(x.Model[k]))
		}
	}
	x.FS.Direct = false
	res.Summary = fmt.Sprintf("fs stop at call %d phase %d (%s): model keys %d, in flight %d", pt[0], pt[1], dx.FS.Calls[pt[0]].Kind, len(x.Model), len(x.InFlight))
	res.Touched = true
}

func famFSErrors(w *World, spec *RunSpec, res *RunResult) {
	x := runFS(w, spec, func(x *FSWork, s *Sim) {
		x.FS.Opts.Err = 80
		x.W.Budget = 1 + x.W.Tape.Draw("fsbudget", 4)
		n := 3 + x.W.Tape.Draw("nfsops", 8)
		x.live = 1
		s.Go("w0", func() { x.seqTask(s, n, true) })
	})
	// whatever failed, the store must still agree with the model
	x.FS.Direct = true
	for _, k := range fsKeys {
		got, err := x.P.Load(k)
		if err != nil || !bytes.Equal(got, x.Model[k]) {
			w.Violate("C19", "store-diverged", "errors", "after injected errors key %#x loads %d bytes (err %v), acknowledged are %d", k, len(got), err, len(x.Model[k]))
		}
	}
	keys, err := x.P.List()
	if err == nil {
		x.checkList(keys, "errors")
	}
	res.Summary = fmt.Sprintf("fs errors: %d api ops, %d system calls, faults %v", len(x.Hist), len(x.FS.Calls), w.Faults)
	res.Touched = w.Probes["save_failed"] > 0
}

// ---- concurrency: porcupine ----

type fsIn struct {
	Kind byte
	Key  uint
	Val  string
}

type fsOut struct {
	Val  string
	Keys string
	Err  bool
}

func famFSConcurrent(w *World, spec *RunSpec, res *RunResult) {
	var ops []porcupine.Operation
	x := runFS(w, spec, func(x *FSWork, s *Sim) {
		t := x.W.Tape
		nt := 2 + t.Draw("fstasks", 3)
		nk := 1 + t.Draw("fsnkeys", 3)
		x.live = nt
		per := 2 + t.Draw("fsper", 3)
		for ti := 0; ti < nt; ti++ {
			ti := ti
			s.Go(fmt.Sprintf("w%d", ti), func() {
				defer func() { x.live-- }()
				for i := 0; i < per; i++ {
					s.Pause("fsop")
					if s.dead {
						return
					}
					key := fsKeys[t.Draw("fskey", nk)]
					// one writer per key: the owner is key index mod tasks
					owner := 0
					for ki, k := range fsKeys {
						if k == key {
							owner = ki % nt
						}
					}
					in := fsIn{Key: key}
					out := fsOut{}
					call := x.W.Steps
					kind := t.Pick("fscop", []int{4, 2, 3, 2})
					if owner != ti && kind < 2 {
						kind = 2 + t.Draw("fsro", 2)
					}
					switch kind {
					case 0:
						in.Kind = 'S'
						v := x.value(t)
						if len(v) > 300 {
							v = v[:300]
						}
						in.Val = string(v)
						out.Err = x.P.Save(key, split(t, v)) != nil
					case 1:
						in.Kind = 'D'
						out.Err = x.P.Delete(key) != nil
					case 2:
						in.Kind = 'L'
						v, err := x.P.Load(key)
						out.Val, out.Err = string(v), err != nil
						if v == nil {
							out.Val = "<nil>"
						}
					case 3:
						in.Kind = 'I'
						keys, err := x.P.List()
						sort.Slice(keys, func(i, j int) bool { return keys[i] < keys[j] })
						out.Keys, out.Err = fmt.Sprint(keys), err != nil
					}
					if s.dead {
						return
					}
					ops = append(ops, porcupine.Operation{ClientId: ti, Input: in, Call: int64(call), Output: out, Return: int64(x.W.Steps)})
				}
			})
		}
	})
	if x.FS.RenameDirty > 0 {
		w.Violate("C19", "visible-before-flushed", "rename", "%d renames made a file visible whose content had not been flushed before", x.FS.RenameDirty)
	}
	model := porcupine.Model{
		Init: func() interface{} { return map[uint]string{} },
		Step: func(state, input, output interface{}) (bool, interface{}) {
			st := state.(map[uint]string)
			in := input.(fsIn)
			out := output.(fsOut)
			if out.Err {
				return false, st
			}
			switch in.Kind {
			case 'S':
				ns := map[uint]string{}
				for k, v := range st {
					ns[k] = v
				}
				ns[in.Key] = in.Val
				return true, ns
			case 'D':
				ns := map[uint]string{}
				for k, v := range st {
					if k != in.Key {
						ns[k] = v
					}
				}
				return true, ns
			case 'L':
				v, ok := st[in.Key]
				if !ok {
					return out.Val == "<nil>", st
				}
				return out.Val == v, st
			case 'I':
				var keys []uint
				for k := range st {
					keys = append(keys, k)
				}
				sort.Slice(keys, func(i, j int) bool { return keys[i] < keys[j] })
				return out.Keys == fmt.Sprint(keys), st
			}
			return false, st
		},
		Equal: func(a, b interface{}) bool {
			x, y := a.(map[uint]string), b.(map[uint]string)
			if len(x) != len(y) {
				return false
			}
			for k, v := range x {
				if y[k] != v {
					return false
				}
			}
			return true
		},
	}
	switch porcupine.CheckOperationsTimeout(model, ops, 5*time.Second) {
	case porcupine.Illegal:
		w.Violate("C19", "not-linearizable", "concurrent", "the history of %d concurrent Save/Load/Delete/List operations is not linearizable against a map: %v", len(ops), histString(ops))
	case porcupine.Unknown:
		w.Inconcl = "porcupine timed out"
	default:
		w.Probe("history_linearizable")
	}
	res.Summary = fmt.Sprintf("fs concurrent: %d ops, %d system calls", len(ops), len(x.FS.Calls))
	res.Touched = len(ops) > 3
	res.Faultless = true
}

func histString(ops []porcupine.Operation) string {
	s := ""
	for _, o := range ops {
		in := o.Input.(fsIn)
		out := o.Output.(fsOut)
		v := in.Val
		if len(v) > 10 {
			v = v[:10]
		}
		ov := out.Val
		if len(ov) > 10 {
			ov = ov[:10]
		}
		s += fmt.Sprintf("[c%d %d-%d %c %#x %q -> %q %s err=%v] ", o.ClientId, o.Call, o.Return, in.Kind, in.Key, v, ov, out.Keys, out.Err)
	}
	return s
}

func init() {
	register("C19",
		Family{Name: "stops", Weight: 2, Sweep: true, Run: famFSStops},
		Family{Name: "errors", Weight: 1, Run: famFSErrors},
		Family{Name: "concurrent", Weight: 2, Run: famFSConcurrent})
}
