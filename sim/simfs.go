package sim

import (
	"errors"
	"io/fs"
	"sort"
	"strings"
	"syscall"

	"github.com/pascaldekloe/mqtt/verifsim"
	"github.com/pascaldekloe/mqtt/verifsim/simos"
)

// SimFS is the simulated kernel below the FileSystem store (package os is
// rebound to verifsim/simos in the instrumented mqtt.go). Every call is a park
// point; the state is plain data and survives process stops: what a killed
// process leaves behind is every completed call plus the prefix of a write in
// progress.
type SimFS struct {
	W      *World
	sim    *Sim
	Dir    map[string]*inode
	fds    map[int]*fdesc
	nextFD int
	Calls  []FSCall // completed or interrupted calls, in order
	Opts   FSOpts
	Direct bool // execute without scheduling (oracle reads after a stop)
	// crash point of this run (sweep): call index and phase
	StopCall    int // -1 none
	StopPhase   int // 0 before, 1 after, 2+b: inside the write after b bytes
	RenameDirty int // renames whose source was not flushed
}

type FSOpts struct {
	Err int // permille: a call fails (ENOSPC on write/create, EIO otherwise)
}

type inode struct {
	data  []byte
	dirty bool // written since the last Sync
	ino   int
}

type fdesc struct {
	ino   *inode
	name  string
	isDir bool
	// positional descriptors (OpenFile without O_APPEND) write at their
	// offset, overwriting what is there; Create truncates, so appending
	// and positional writing coincide for it
	positional bool
	off        int
}

type FSCall struct {
	Kind  string // create open write sync close rename remove readfile readdir
	Name  string
	Name2 string
	N     int // bytes asked (write)
	Done  int // bytes written
	Err   bool
	Step  int
	G     string
}

func NewSimFS(w *World) *SimFS {
	return &SimFS{W: w, Dir: map[string]*inode{}, fds: map[int]*fdesc{}, nextFD: 3, StopCall: -1}
}

func (f *SimFS) Attach(s *Sim) {
	f.sim = s
	simos.B = f
}

// Snapshot copies the directory (name -> content).
func (f *SimFS) Snapshot() map[string][]byte {
	m := map[string][]byte{}
	for n, i := range f.Dir {
		m[n] = append([]byte{}, i.data...)
	}
	return m
}

func (f *SimFS) names() []string {
	var l []string
	for n := range f.Dir {
		l = append(l, n)
	}
	sort.Strings(l)
	return l
}

var errNoSpace = &fs.PathError{Op: "write", Path: "sim", Err: syscall.ENOSPC}
var errIO = &fs.PathError{Op: "sim", Path: "sim", Err: syscall.EIO}

// call runs one system call under scheduler control. body performs the
// effect; for writes it is handed the number of bytes to accept.
func (f *SimFS) call(kind, name, name2 string, n int, body func(accept int) error) (done int, err error) {
	if f.Direct {
		err = body(n)
		return n, err
	}
	s := f.sim
	if s.dead {
		return 0, errDead
	}
	w := f.W
	op := &fsOp{}
	op.run = func() {
		idx := len(f.Calls)
		rec := FSCall{Kind: kind, Name: name, Name2: name2, N: n, Step: w.Steps}
		stopHere := f.StopCall == idx
		if stopHere && f.StopPhase == 0 {
			w.Faults["stop_before_syscall"]++
			w.Ev("stop", idx, "process killed at the entry of %s(%s)", kind, name)
			f.Calls = append(f.Calls, rec)
			op.err = errDead
			s.stop()
			return
		}
		if stopHere && f.StopPhase >= 2 && kind == "write" {
			b := f.StopPhase - 2
			if b > n {
				b = n
			}
			w.Faults["stop_inside_write"]++
			w.Ev("stop", idx, "process killed inside write(%s) after %d of %d bytes", name, b, n)
			body(b)
			rec.Done = b
			f.Calls = append(f.Calls, rec)
			op.err = errDead
			s.stop()
			return
		}
		if w.FaultOK() && w.Tape.Flip("fserr", f.Opts.Err) {
			w.Fault("fs_err_" + kind)
			rec.Err = true
			if kind == "write" && n > 0 {
				// short write: a prefix is accepted, then the error
				b := w.Tape.Draw("fsshort", n)
				body(b)
				rec.Done = b
				op.n = b
				op.err = errNoSpace
			} else if kind == "create" {
				op.err = errNoSpace
			} else {
				op.err = errIO
			}
			f.Calls = append(f.Calls, rec)
			w.Ev("fs", idx, "%s(%s) fails: %v", kind, name, op.err)
			return
		}
		op.err = body(n)
		rec.Done = n
		op.n = n
		rec.Err = op.err != nil
		f.Calls = append(f.Calls, rec)
		w.Ev("fs", idx, "%s(%s %s) n=%d err=%v", kind, name, name2, n, op.err)
		if stopHere && f.StopPhase == 1 {
			w.Faults["stop_after_syscall"]++
			w.Ev("stop", idx, "process killed at the exit of %s(%s)", kind, name)
			op.err = errDead
			s.stop()
		}
	}
	s.parkAt(verifsim.Goid(), pkFS, "fs."+kind, op)
	return op.n, op.err
}

func (f *SimFS) Create(name string) (int, error) {
	fd := 0
	_, err := f.call("create", name, "", 0, func(int) error {
		ino := f.Dir[name]
		if ino == nil {
			ino = &inode{}
			f.Dir[name] = ino
		}
		ino.data = ino.data[:0:0] // O_TRUNC
		ino.dirty = true
		f.nextFD++
		fd = f.nextFD
		f.fds[fd] = &fdesc{ino: ino, name: name}
		return nil
	})
	return fd, err
}

// OpenFile honours O_CREATE, O_EXCL, O_TRUNC and O_APPEND; writes without
// O_APPEND start at offset 0 and overwrite in place.
func (f *SimFS) OpenFile(name string, flag int) (int, error) {
	fd := 0
	_, err := f.call("create", name, "", 0, func(int) error {
		ino := f.Dir[name]
		if ino == nil {
			if flag&simos.O_CREATE == 0 {
				return &fs.PathError{Op: "open", Path: name, Err: fs.ErrNotExist}
			}
			ino = &inode{dirty: true}
			f.Dir[name] = ino
		} else if flag&simos.O_CREATE != 0 && flag&simos.O_EXCL != 0 {
			return &fs.PathError{Op: "open", Path: name, Err: fs.ErrExist}
		}
		if flag&simos.O_TRUNC != 0 {
			ino.data = ino.data[:0:0]
			ino.dirty = true
		}
		f.nextFD++
		fd = f.nextFD
		d := &fdesc{ino: ino, name: name, positional: flag&simos.O_APPEND == 0}
		f.fds[fd] = d
		return nil
	})
	return fd, err
}

func (f *SimFS) Open(name string) (int, error) {
	fd := 0
	_, err := f.call("open", name, "", 0, func(int) error {
		f.nextFD++
		fd = f.nextFD
		if strings.HasSuffix(name, "/") || name == "" || f.Dir[name] == nil {
			// the store only opens its directory
			f.fds[fd] = &fdesc{name: name, isDir: true}
			return nil
		}
		f.fds[fd] = &fdesc{ino: f.Dir[name], name: name}
		return nil
	})
	return fd, err
}

func (f *SimFS) Write(fd int, p []byte) (int, error) {
	d := f.fds[fd]
	if d == nil || d.ino == nil {
		return 0, fs.ErrClosed
	}
	return f.call("write", d.name, "", len(p), func(accept int) error {
		if d.positional {
			for len(d.ino.data) < d.off {
				d.ino.data = append(d.ino.data, 0)
			}
			n := copy(d.ino.data[d.off:], p[:accept])
			d.ino.data = append(d.ino.data, p[n:accept]...)
			d.off += accept
		} else {
			d.ino.data = append(d.ino.data, p[:accept]...)
		}
		d.ino.dirty = true
		return nil
	})
}

func (f *SimFS) Sync(fd int) error {
	d := f.fds[fd]
	if d == nil || d.ino == nil {
		return fs.ErrClosed
	}
	_, err := f.call("sync", d.name, "", 0, func(int) error {
		d.ino.dirty = false
		return nil
	})
	return err
}

func (f *SimFS) Close(fd int) error {
	d := f.fds[fd]
	if d == nil {
		return fs.ErrClosed
	}
	_, err := f.call("close", d.name, "", 0, func(int) error {
		delete(f.fds, fd)
		return nil
	})
	return err
}

func (f *SimFS) Readdirnames(fd int, n int) ([]string, error) {
	d := f.fds[fd]
	if d == nil || !d.isDir {
		return nil, errors.New("simfs: not a directory")
	}
	var out []string
	_, err := f.call("readdir", d.name, "", 0, func(int) error {
		for _, full := range f.names() {
			if strings.HasPrefix(full, d.name) {
				out = append(out, full[len(d.name):])
			}
		}
		// directory order is unspecified
		if !f.Direct {
			for i := len(out) - 1; i > 0; i-- {
				j := i - f.W.Tape.Draw("dirshuf", i+1)
				out[i], out[j] = out[j], out[i]
			}
		}
		return nil
	})
	return out, err
}

func (f *SimFS) Rename(oldpath, newpath string) error {
	_, err := f.call("rename", oldpath, newpath, 0, func(int) error {
		ino := f.Dir[oldpath]
		if ino == nil {
			return &fs.PathError{Op: "rename", Path: oldpath, Err: fs.ErrNotExist}
		}
		if ino.dirty {
			f.RenameDirty++
		}
		f.Dir[newpath] = ino
		delete(f.Dir, oldpath)
		return nil
	})
	return err
}

func (f *SimFS) Remove(name string) error {
	_, err := f.call("remove", name, "", 0, func(int) error {
		if f.Dir[name] == nil {
			return &fs.PathError{Op: "remove", Path: name, Err: fs.ErrNotExist}
		}
		delete(f.Dir, name)
		return nil
	})
	return err
}

// ReadFile is two steps: resolve the name, then read the inode, so that an
// in-place writer would be observable as a torn read.
func (f *SimFS) ReadFile(name string) ([]byte, error) {
	var ino *inode
	_, err := f.call("open", name, "", 0, func(int) error {
		ino = f.Dir[name]
		if ino == nil {
			return &fs.PathError{Op: "open", Path: name, Err: fs.ErrNotExist}
		}
		return nil
	})
	if err != nil {
		return nil, err
	}
	var out []byte
	_, err = f.call("read", name, "", 0, func(int) error {
		out = append([]byte{}, ino.data...)
		return nil
	})
	return out, err
}
