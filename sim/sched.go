package sim

import (
	"fmt"
	"hash/fnv"
	"sort"
	"strings"
	"testing"
	"testing/synctest"
	"time"

	"github.com/pascaldekloe/mqtt/verifsim"
)

// Violation is one oracle finding. Prop names the property whose oracle fired,
// Oracle the oracle, Sig the discriminator used to tell distinct failures of
// one oracle apart (and to match known findings); Detail is for humans.
type Violation struct {
	Prop   string `json:"prop"`
	Oracle string `json:"oracle"`
	Sig    string `json:"sig"`
	Detail string `json:"detail"`
	Step   int    `json:"step"`
}

func (v Violation) Key() string { return v.Prop + "/" + v.Oracle + "/" + v.Sig }

// World is the state of one run; it survives process stops (each incarnation
// of the client runs in a bubble of its own, everything in World is plain
// data and moves from bubble to bubble).
type World struct {
	T    *testing.T
	Tape *Tape
	Prop string
	Fam  string

	Steps    int
	MaxSteps int
	SimTime  time.Duration // simulated time of finished bubbles
	Gen      int           // incarnation number

	Viol         []Violation
	TroubleSteps []int
	quiet        bool // unwinding a stopped incarnation: events are not recorded
	rootG        uint64
	stepAcc      uint64
	stepText     []string
	Faults       map[string]int
	Probes       map[string]int
	Inconcl      string // non-empty: run could not decide (cap hit in fault phase ...)
	hash         uint64
	Verbose      bool
	Text         []string // event log, only when Verbose
	actSeq       uint64   // hash of (goroutine name, action kind) decisions only
	States       map[uint64]struct{}
	AllConns     []*Conn
	FaultsOff    bool // quiescence phase: no more faults
	FaultFrom    int  // no fault before this step of the incarnation's run (spreads the budget to the late part of a workload)
	StopParam    int  // stop the process at this storage-operation boundary (2i: before op i, 2i+1: after op i; -1 none)
	StopBase     int  // index of the first storage operation StopParam counts from
	Budget       int  // remaining fault budget

	Disk   *Disk
	Broker *Broker
	X      any // scenario state
}

func NewWorld(t *testing.T, tape *Tape, prop, fam string) *World {
	return &World{T: t, Tape: tape, Prop: prop, Fam: fam, MaxSteps: 30000, StopParam: -1,
		Faults: map[string]int{}, Probes: map[string]int{}, hash: 1469598103934665603,
		actSeq: 1469598103934665603}
}

func (w *World) mix(s string, a int) {
	h := w.hash
	for i := 0; i < len(s); i++ {
		h = (h ^ uint64(s[i])) * 1099511628211
	}
	h = (h ^ uint64(uint32(a))) * 1099511628211
	w.hash = h
}

// Ev records an event in the run's hash (always) and text log (verbose).
// Events emitted by the scheduler goroutine are ordered. Events emitted by
// other goroutines within one step (several goroutines woken by one release
// run in an order the library's map iteration may decide, e.g. breakAll) are
// folded commutatively and sorted, so that the hash does not depend on it.
func (w *World) Ev(kind string, a int, format string, args ...any) {
	if w.quiet {
		// nothing a stopped incarnation does is observed
		return
	}
	if w.rootG != 0 && verifsim.Goid() != w.rootG {
		h := uint64(1469598103934665603)
		for i := 0; i < len(kind); i++ {
			h = (h ^ uint64(kind[i])) * 1099511628211
		}
		h = (h ^ uint64(uint32(a))) * 1099511628211
		w.stepAcc += h*2 + 1
		if w.Verbose {
			w.stepText = append(w.stepText, fmt.Sprintf("%6d %-10s ", w.Steps, kind)+fmt.Sprintf(format, args...))
		}
		return
	}
	w.flushStep()
	w.mix(kind, a)
	if w.Verbose {
		w.Text = append(w.Text, fmt.Sprintf("%6d %-10s ", w.Steps, kind)+fmt.Sprintf(format, args...))
		if len(w.Text) > 60000 {
			// long runs: keep the beginning and the end
			w.Text = append(w.Text[:20000:20000], w.Text[len(w.Text)-20000:]...)
		}
	}
}

// flushStep folds what other goroutines logged since the last scheduler event.
func (w *World) flushStep() {
	if w.stepAcc != 0 {
		w.mix("tasks", int(w.stepAcc^(w.stepAcc>>32)))
		w.stepAcc = 0
	}
	if len(w.stepText) > 0 {
		sort.Strings(w.stepText)
		w.Text = append(w.Text, w.stepText...)
		w.stepText = w.stepText[:0]
	}
}

func (w *World) Hash() uint64 { w.flushStep(); return w.hash }

func (w *World) Fault(kind string) { w.Faults[kind]++; w.Budget--; w.Trouble() }

// Trouble notes that something happened which may legitimately fail a connect
// attempt or lose a connection.
func (w *World) Trouble() {
	if n := len(w.TroubleSteps); n == 0 || w.TroubleSteps[n-1] != w.Steps {
		w.TroubleSteps = append(w.TroubleSteps, w.Steps)
	}
}
func (w *World) Probe(name string) { w.Probes[name]++ }

// Violate records a violation (first per key only).
func (w *World) Violate(prop, oracle, sig, format string, args ...any) {
	v := Violation{Prop: prop, Oracle: oracle, Sig: sig, Detail: fmt.Sprintf(format, args...), Step: w.Steps}
	for _, o := range w.Viol {
		if o.Key() == v.Key() {
			return
		}
	}
	w.Viol = append(w.Viol, v)
	w.Ev("VIOLATION", 0, "%s: %s", v.Key(), v.Detail)
}

// FaultOK is whether a fault may be injected now.
func (w *World) FaultOK() bool { return !w.FaultsOff && w.Budget > 0 && w.Steps >= w.FaultFrom }

// park kinds
const (
	pkYield = iota
	pkHarness
	pkRead
	pkWrite
	pkDial
	pkDisk
	pkFS
	pkClose
)

var pkNames = [...]string{"yield", "harness", "read", "write", "dial", "disk", "fs", "close"}

type park struct {
	g     string
	kind  int
	label string
	wake  chan struct{}
	age   int
	seq   int
	op    any
}

// Action is something the scheduler may do next.
type Action struct {
	Name   string
	Weight int
	Run    func()
	p      *park
}

// Sim is one bubble: the scheduler of one incarnation.
type Sim struct {
	W      *World
	rootG  uint64
	names  map[uint64]string
	libN   int
	parked []*park
	notify chan struct{}
	dead   bool
	epoch  time.Time
	live   int // harness tasks still running
	parkN  int

	Env      func() []Action // environment actions offered each step
	StepHook func()          // runs at every step boundary, before choosing
	Done     func() bool
	Stuck    bool
	CapHit   bool
	Stopped  bool // the process was stopped (crash point)

	FinalParks map[string]string // where each goroutine was parked when the loop ended
	base       time.Duration
	dur        time.Duration
	ended      bool

	conns     []*Conn
	netParks  map[string]int
	Releases  map[string]int // times each goroutine was released from a park
	OnLoopEnd func()         // called when the scheduler loop has ended, before the unwinding
	Unwind    func()         // called when the incarnation is turned into a zombie
	NoYield   bool
	tickW     int
	// starvation mode: now and then one goroutine is held back for a
	// stretch of steps while everything else proceeds (orderings that
	// uniform choice reaches with vanishing probability)
	StarveP    int // permille per step of starting a stretch
	starveG    string
	starveLeft int
	TickTime   time.Duration // simulated time passed in tick actions and injected stalls
}

var simEpoch = time.Date(2000, 1, 1, 0, 0, 0, 0, time.UTC)

// Now is the simulated time since the start of the run.
func (s *Sim) Now() time.Duration {
	if s.ended {
		return s.base + s.dur
	}
	return s.base + time.Since(s.epoch)
}

func (s *Sim) name(gid uint64) string {
	if n, ok := s.names[gid]; ok {
		return n
	}
	s.libN++
	n := fmt.Sprintf("~lib%03d", s.libN)
	s.names[gid] = n
	return n
}

func (s *Sim) hook(label string) {
	if s.NoYield {
		return
	}
	gid := verifsim.Goid()
	if gid == s.rootG {
		return
	}
	// a zombie keeps parking at its yields: the unwinding releases one
	// goroutine at a time in canonical order, so that what is left of the
	// stopped incarnation runs down deterministically
	s.parkAt(gid, pkYield, label, nil)
}

func (s *Sim) parkAt(gid uint64, kind int, label string, op any) {
	p := &park{g: s.name(gid), kind: kind, label: label, wake: make(chan struct{}), op: op}
	if kind == pkRead || kind == pkWrite || kind == pkDial {
		s.netParks[p.g]++
	}
	s.parkN++
	p.seq = s.parkN
	s.parked = append(s.parked, p)
	select {
	case s.notify <- struct{}{}:
	default:
	}
	<-p.wake
}

// IsParked reports whether the named goroutine sits at a park point.
func (s *Sim) IsParked(name string) bool {
	for _, p := range s.parked {
		if p.g == name {
			return true
		}
	}
	return false
}

// Pause is a harness park point of the calling task.
func (s *Sim) Pause(label string) {
	if s.dead {
		return
	}
	s.parkAt(verifsim.Goid(), pkHarness, label, nil)
}

// Go starts a harness task under scheduler control.
func (s *Sim) Go(name string, f func()) {
	s.live++
	go func() {
		s.names[verifsim.Goid()] = name
		defer func() {
			s.live--
			select {
			case s.notify <- struct{}{}:
			default:
			}
		}()
		s.Pause("start")
		f()
	}()
}

func (s *Sim) unpark(p *park) {
	s.Releases[p.g]++
	for i, q := range s.parked {
		if q == p {
			s.parked = append(s.parked[:i], s.parked[i+1:]...)
			break
		}
	}
	close(p.wake)
}

func (s *Sim) sortParked() {
	sort.SliceStable(s.parked, func(i, j int) bool {
		if s.parked[i].g != s.parked[j].g {
			return s.parked[i].g < s.parked[j].g
		}
		return s.parked[i].seq < s.parked[j].seq
	})
}

// RunBubble executes one incarnation: setup runs on the scheduler goroutine
// inside a fresh bubble (it must create everything there), then the scheduler
// loop runs until Done, the step cap or a stall. Afterwards the incarnation is
// turned into a zombie and unwound.
func RunBubble(w *World, setup func(s *Sim)) (s *Sim) {
	defer func() {
		if r := recover(); r != nil {
			msg := fmt.Sprint(r)
			if strings.Contains(msg, "deadlock") && strings.Contains(msg, "bubble") {
				// goroutines of the stopped incarnation that can never
				// unwind (counted, and judged by C12 where it matters)
				w.Probe("zombie_leak")
				return
			}
			panic(r)
		}
	}()
	synctest.Test(w.T, func(t *testing.T) {
		s = &Sim{W: w, names: map[uint64]string{}, notify: make(chan struct{}, 1), epoch: time.Now(), tickW: 1, base: w.SimTime, netParks: map[string]int{}, Releases: map[string]int{}}
		s.rootG = verifsim.Goid()
		w.rootG = s.rootG
		verifsim.Hook = s.hook
		defer func() {
			s.dur = time.Since(s.epoch)
			s.ended = true
			w.SimTime = s.base + s.dur
			s.FinalParks = map[string]string{}
			for _, p := range s.parked {
				s.FinalParks[p.g] = pkNames[p.kind] + "@" + p.label
			}
			if s.OnLoopEnd != nil {
				s.OnLoopEnd()
			}
			s.unwind()
			verifsim.Hook = nil
		}()
		w.Gen++
		setup(s)
		s.loop()
	})
	return s
}

func (s *Sim) drain() {
	select {
	case <-s.notify:
	default:
	}
}

func (s *Sim) loop() {
	w := s.W
	for {
		synctest.Wait()
		s.drain()
		w.flushStep()
		w.Steps++
		if s.StepHook != nil {
			s.StepHook()
		}
		if s.Stopped || (s.Done != nil && s.Done()) {
			return
		}
		if w.Steps >= w.MaxSteps {
			s.CapHit = true
			return
		}
		if s.forced() {
			continue
		}
		acts := s.collect()
		if len(acts) == 0 || (len(acts) == 1 && acts[0].Name == "tick") {
			if !s.idle() {
				s.Stuck = true
				return
			}
			continue
		}
		// ageing: an action enabled for 256 consecutive steps is forced
		var pick *Action
		for i := range acts {
			if p := acts[i].p; p != nil && p.age >= 256 {
				if pick == nil || p.age > pick.p.age {
					pick = &acts[i]
				}
			}
		}
		if pick == nil {
			ws := make([]int, len(acts))
			for i := range acts {
				ws[i] = acts[i].Weight
			}
			if s.StarveP > 0 {
				s.starve(acts, ws)
			}
			pick = &acts[w.Tape.Pick("act", ws)]
		} else {
			w.Probe("aged_forced")
		}
		for i := range acts {
			if p := acts[i].p; p != nil && &acts[i] != pick {
				p.age++
			}
		}
		s.noteAct(pick)
		pick.Run()
		if s.Stopped {
			return
		}
	}
}

// starve zeroes the weights of the held-back goroutine's actions, as long as
// something else than the passing of time remains possible.
func (s *Sim) starve(acts []Action, ws []int) {
	w := s.W
	if s.starveLeft > 0 {
		s.starveLeft--
	} else if w.Tape.Flip("starve", s.StarveP) {
		var gs []string
		for i := range acts {
			if p := acts[i].p; p != nil && (len(gs) == 0 || gs[len(gs)-1] != p.g) {
				gs = append(gs, p.g)
			}
		}
		if len(gs) > 1 {
			s.starveG = gs[w.Tape.Draw("starveg", len(gs))]
			s.starveLeft = 4 + w.Tape.Draw("starven", 120)
			w.Probe("goroutine_held_back")
		}
	}
	if s.starveLeft == 0 {
		return
	}
	other := false
	for i := range acts {
		if ws[i] > 0 && acts[i].Name != "tick" && (acts[i].p == nil || acts[i].p.g != s.starveG) {
			other = true
		}
	}
	if !other {
		return
	}
	for i := range acts {
		if acts[i].p != nil && acts[i].p.g == s.starveG {
			ws[i] = 0
		}
	}
}

func (s *Sim) noteAct(a *Action) {
	w := s.W
	g := ""
	if a.p != nil {
		g = a.p.g
	}
	h := w.actSeq
	for _, str := range []string{g, a.Name} {
		for i := 0; i < len(str); i++ {
			h = (h ^ uint64(str[i])) * 1099511628211
		}
		h = (h ^ 0xff) * 1099511628211
	}
	w.actSeq = h
	if a.p != nil {
		w.Ev("act", 0, "%s %s @%s", a.p.g, a.Name, a.p.label)
	} else {
		w.Ev("act", 0, "%s", a.Name)
	}
	w.mix(g, 0)
	w.mix(a.Name, 0)
}

// forced completes, without a choice, operations whose outcome is determined:
// operations on a locally closed connection and expired deadlines.
func (s *Sim) forced() bool {
	s.sortParked()
	now := time.Now()
	for _, p := range s.parked {
		switch op := p.op.(type) {
		case *readOp:
			c := op.c
			if c.closedLocal {
				op.err = c.errClosed("read")
				s.W.Ev("read", c.id, "%s conn%d closed locally", p.g, c.id)
				s.unpark(p)
				return true
			}
			if !c.rdl.IsZero() && !now.Before(c.rdl) && c.avail() == 0 {
				op.err = c.errTimeout("read")
				s.W.Trouble()
				s.W.Ev("read", c.id, "%s conn%d deadline", p.g, c.id)
				s.W.Probe("read_deadline")
				s.unpark(p)
				return true
			}
		case *writeOp:
			c := op.c
			if c.closedLocal {
				op.err = c.errClosed("write")
				s.W.Ev("write", c.id, "%s conn%d closed locally", p.g, c.id)
				s.unpark(p)
				return true
			}
			if c.WriteBlocked && c.Broken != 1 && c.Broken != 2 && !c.wdl.IsZero() && !now.Before(c.wdl) {
				op.n, op.err = 0, c.errTimeout("write")
				c.stalled = true
				s.W.Trouble()
				s.W.Probe("blocked_write_timed_out")
				s.W.Ev("write", c.id, "%s conn%d blocked write: deadline", p.g, c.id)
				s.unpark(p)
				return true
			}
		}
	}
	return false
}

// collect lists the enabled actions in canonical order.
func (s *Sim) collect() []Action {
	var acts []Action
	for _, p := range s.parked {
		p := p
		switch p.kind {
		case pkYield, pkHarness:
			acts = append(acts, Action{Name: pkNames[p.kind], Weight: 10, p: p, Run: func() { s.unpark(p) }})
		case pkClose:
			// closing takes its time: until the call is released the
			// connection works for everybody else
			acts = append(acts, Action{Name: pkNames[p.kind], Weight: 3, p: p, Run: func() { s.unpark(p) }})
		case pkRead:
			if a, ok := s.readAction(p); ok {
				acts = append(acts, a)
			}
		case pkWrite:
			if c := p.op.(*writeOp).c; c.WriteBlocked && c.Broken != 1 && c.Broken != 2 {
				// the peer takes nothing: the write ends with its
				// deadline, a local close or the reset (forced)
				continue
			}
			acts = append(acts, s.writeAction(p))
		case pkDial:
			acts = append(acts, s.dialAction(p))
		case pkDisk:
			acts = append(acts, s.diskAction(p))
		case pkFS:
			acts = append(acts, s.fsAction(p))
		}
	}
	if s.Env != nil {
		acts = append(acts, s.Env()...)
	}
	acts = append(acts, Action{Name: "tick", Weight: s.tickW, Run: s.tick})
	return acts
}

var tickSteps = []time.Duration{time.Millisecond, 20 * time.Millisecond, 250 * time.Millisecond, time.Second, 5 * time.Second}

func (s *Sim) tick() {
	d := tickSteps[s.W.Tape.Draw("tick", len(tickSteps))]
	t0 := time.Now()
	s.sleep(d)
	s.TickTime += time.Since(t0)
}

// sleep lets simulated time pass, but never beyond the next deadline the
// simulator itself has to deliver, and only until some goroutine parks.
func (s *Sim) sleep(d time.Duration) {
	if nd, ok := s.nextDeadline(); ok && nd < d {
		d = nd
	}
	if d <= 0 {
		return
	}
	s.drain()
	tm := time.NewTimer(d)
	select {
	case <-s.notify:
		tm.Stop()
	case <-tm.C:
	}
}

func (s *Sim) nextDeadline() (time.Duration, bool) {
	now := time.Now()
	var best time.Duration
	found := false
	for _, p := range s.parked {
		var dl time.Time
		switch op := p.op.(type) {
		case *readOp:
			dl = op.c.rdl
		case *writeOp:
			dl = op.c.wdl
		}
		if dl.IsZero() {
			continue
		}
		d := dl.Sub(now)
		if d < 0 {
			d = 0
		}
		if !found || d < best {
			best, found = d, true
		}
	}
	return best, found
}

const idleCap = time.Hour

// idle is entered when nothing is enabled: time jumps to the next timer (of
// the library, the harness or the simulator). It reports false when an hour of
// simulated time passes without any goroutine reaching a park point.
func (s *Sim) idle() bool {
	before := s.parkN
	liveBefore := s.live
	d := idleCap
	if nd, ok := s.nextDeadline(); ok {
		if nd == 0 {
			return true // forced() will deliver it
		}
		if nd < d {
			d = nd
		}
		s.sleep(d)
		return true
	}
	s.W.Ev("idle", 0, "nothing enabled, waiting for timers")
	s.sleep(d)
	synctest.Wait()
	return s.parkN != before || s.live != liveBefore
}

// unwind turns the incarnation into a zombie: seams fail at once, yields no
// longer park; every parked goroutine is released. Harness tasks are expected
// to return when they see s.dead.
func (s *Sim) unwind() {
	s.dead = true
	s.W.quiet = true
	defer func() { s.W.quiet = false }()
	for _, c := range s.conns {
		c.closedLocal = true
	}
	if s.Unwind != nil {
		s.Unwind()
	}
	idleRounds := 0
	for round := 0; round < 100000; round++ {
		synctest.Wait()
		s.drain()
		if len(s.parked) == 0 {
			if s.live == 0 {
				break
			}
			// tasks blocked on library timers: let time pass
			idleRounds++
			if idleRounds > 200 {
				break
			}
			tm := time.NewTimer(10 * time.Second)
			select {
			case <-s.notify:
				tm.Stop()
			case <-tm.C:
			}
			continue
		}
		s.sortParked()
		p := s.parked[0]
		// fairness among zombies: oldest park first within canonical order
		for _, q := range s.parked {
			if q.seq < p.seq {
				p = q
			}
		}
		s.killOp(p)
		s.unpark(p)
	}
	if s.live != 0 {
		s.W.Probe("zombie_tasks_stuck")
	}
}

func (s *Sim) killOp(p *park) {
	switch op := p.op.(type) {
	case *readOp:
		op.err = op.c.errClosed("read")
	case *writeOp:
		op.err = op.c.errClosed("write")
	case *dialOp:
		op.err = errDead
	case *diskOp:
		op.err = errDead
	case *fsOp:
		op.err = errDead
	}
}

var errDead = fmt.Errorf("sim: process stopped")

// StateHash folds an abstract state tuple into the set of distinct states.
func (w *World) NoteState(parts ...int) {
	h := fnv.New64a()
	var b [8]byte
	for _, p := range parts {
		for i := 0; i < 8; i++ {
			b[i] = byte(p >> (8 * i))
		}
		h.Write(b[:])
	}
	if w.States == nil {
		w.States = map[uint64]struct{}{}
	}
	if len(w.States) < 1<<16 {
		w.States[h.Sum64()] = struct{}{}
	}
}
