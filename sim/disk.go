package sim

import (
	"errors"
	"net"
	"sort"
	"strings"

	"github.com/pascaldekloe/mqtt/verifsim"
)

// Disk is the simulated medium below the Persistence interface handed to
// InitSession/AdoptSession. It is plain data and survives process stops.
type Disk struct {
	W    *World
	M    map[uint][]byte
	Log  []DiskOp
	sim  *Sim // current incarnation
	Opts DiskOpts
	// Frozen: the process was stopped; the image no longer changes.
	Frozen bool
}

type DiskOpts struct {
	ErrBefore int    // permille: operation fails without effect
	ErrOnly   string // when set: only operations of these kinds fail ("S", "D", "L", "I")
	AliasLoad bool   // Load hands out the stored slice itself, as a map-backed Persistence (the library's own volatile one included) does; the contract does not promise a copy
	ErrAfter  int    // permille: operation takes effect but reports failure (Save/Delete)
	Shuffle   bool
	// CorruptLoad: permille of Load results altered in one byte or
	// truncated on their way to the client (the medium keeps the value)
	CorruptLoad int
}

// DiskOp is one completed (or interrupted) storage operation.
type DiskOp struct {
	Kind        byte // 'S' save, 'D' delete, 'L' load, 'I' list
	Key         uint
	Val         []byte // saved value, loaded value
	Err         bool
	Effect      bool // the medium changed (or would have: delete of a missing key counts)
	Step        int  // completion step
	Start       int  // invocation step
	Gen         int
	G           string
	Interrupted bool // reached the medium while the process stopped; the caller never saw a result
}

type diskOp struct {
	kind byte
	key  uint
	bufs net.Buffers
	val  []byte
	keys []uint
	err  error
	g    string
	at   int
}

func NewDisk(w *World) *Disk { return &Disk{W: w, M: map[uint][]byte{}} }

// Attach binds the disk to the incarnation whose goroutines will call it.
func (d *Disk) Attach(s *Sim) { d.sim = s; d.Frozen = false }

var ErrDiskInjected = errors.New("sim: storage failure (injected)")

func (d *Disk) do(op *diskOp) {
	s := d.sim
	if s.dead {
		op.err = errDead
		return
	}
	op.at = d.W.Steps
	s.parkAt(verifsim.Goid(), pkDisk, "disk."+string(op.kind), op)
}

func (d *Disk) Load(key uint) ([]byte, error) {
	op := &diskOp{kind: 'L', key: key}
	d.do(op)
	return op.val, op.err
}

func (d *Disk) Save(key uint, value net.Buffers) error {
	op := &diskOp{kind: 'S', key: key, bufs: value}
	d.do(op)
	return op.err
}

func (d *Disk) Delete(key uint) error {
	op := &diskOp{kind: 'D', key: key}
	d.do(op)
	return op.err
}

func (d *Disk) List() ([]uint, error) {
	op := &diskOp{kind: 'I'}
	d.do(op)
	return op.keys, op.err
}

// SortedKeys lists the image's keys in ascending order.
func (d *Disk) SortedKeys() []uint {
	keys := make([]uint, 0, len(d.M))
	for k := range d.M {
		keys = append(keys, k)
	}
	sort.Slice(keys, func(i, j int) bool { return keys[i] < keys[j] })
	return keys
}

// Snapshot copies the image.
func (d *Disk) Snapshot() map[uint][]byte {
	m := make(map[uint][]byte, len(d.M))
	for k, v := range d.M {
		m[k] = append([]byte(nil), v...)
	}
	return m
}

func (s *Sim) diskAction(p *park) Action {
	op := p.op.(*diskOp)
	w := s.W
	d := w.Disk
	return Action{Name: "disk", Weight: 10, p: p, Run: func() {
		rec := DiskOp{Kind: op.kind, Key: op.key, Start: op.at, Gen: w.Gen, G: p.g}
		idx := len(d.Log) - w.StopBase
		if w.StopParam >= 0 && w.StopParam == 2*idx {
			// process stop with this operation in progress: a Save or
			// Delete may or may not have reached the medium
			w.Faults["stop_before_op"]++
			w.Ev("stop", idx, "process stops before storage operation %d (%c %#x by %s)", idx, op.kind, op.key, p.g)
			if (op.kind == 'S' || op.kind == 'D') && w.Tape.Flip("stop-applied", 500) {
				d.applyInterrupted(op, p.g)
			}
			s.stop()
			return
		}
		fail, after := false, false
		if w.FaultOK() && (d.Opts.ErrOnly == "" || strings.IndexByte(d.Opts.ErrOnly, op.kind) >= 0) && w.Tape.Flip("dkerr", d.Opts.ErrBefore) {
			fail = true
			w.Fault("disk_err_before_" + string(op.kind))
		} else if (op.kind == 'S' || op.kind == 'D') && w.FaultOK() && w.Tape.Flip("dkerr2", d.Opts.ErrAfter) {
			fail, after = true, true
			w.Fault("disk_err_after_" + string(op.kind))
		}
		if !fail || after {
			switch op.kind {
			case 'S':
				var v []byte
				for _, b := range op.bufs {
					v = append(v, b...)
				}
				d.M[op.key] = v
				rec.Val = v
				rec.Effect = true
			case 'D':
				delete(d.M, op.key)
				rec.Effect = true
			case 'L':
				if v, ok := d.M[op.key]; ok {
					op.val = append([]byte{}, v...)
					rec.Val = op.val
					if d.Opts.AliasLoad {
						op.val = v
					}
					if len(v) > 0 && !d.Opts.AliasLoad && w.FaultOK() && w.Tape.Flip("ldmg", d.Opts.CorruptLoad) {
						w.Fault("load_damaged")
						if fl, ok := w.X.(*Flow); ok {
							fl.LoadDamage++
						}
						if w.Tape.Flip("ldmg-trunc", 250) {
							op.val = op.val[:w.Tape.Draw("ldmg-len", len(op.val))]
						} else {
							pos := w.Tape.Draw("ldmg-pos", len(op.val))
							op.val[pos] += byte(1 + w.Tape.Draw("ldmg-val", 255))
						}
						w.Ev("disk", int(op.key), "Load %#x returns damaged content", op.key)
					}
				}
			case 'I':
				keys := d.SortedKeys()
				if d.Opts.Shuffle {
					for i := len(keys) - 1; i > 0; i-- {
						j := w.Tape.Draw("lshuf", i+1)
						// 0 keeps ascending order
						j = i - j
						keys[i], keys[j] = keys[j], keys[i]
					}
				}
				op.keys = keys
			}
		}
		if fail {
			op.err = ErrDiskInjected
			op.val, op.keys = nil, nil
			rec.Err = true
		}
		rec.Step = w.Steps
		d.Log = append(d.Log, rec)
		w.Ev("disk", int(op.key), "%s %c %#x err=%v effect=%v", p.g, op.kind, op.key, rec.Err, rec.Effect)
		if h, ok := w.X.(interface{ OnDisk(*DiskOp) }); ok {
			h.OnDisk(&d.Log[len(d.Log)-1])
		}
		if w.StopParam >= 0 && w.StopParam == 2*idx+1 {
			w.Faults["stop_after_op"]++
			w.Ev("stop", idx, "process stops right after storage operation %d", idx)
			s.stop()
			return
		}
		s.unpark(p)
	}}
}

// applyInterrupted makes an operation that was in progress at a process stop
// reach the medium without the (dead) caller learning about it.
func (d *Disk) applyInterrupted(op *diskOp, g string) {
	w := d.W
	rec := DiskOp{Kind: op.kind, Key: op.key, Start: op.at, Step: w.Steps, Gen: w.Gen, G: g, Err: true, Effect: true, Interrupted: true}
	switch op.kind {
	case 'S':
		var v []byte
		for _, b := range op.bufs {
			v = append(v, b...)
		}
		d.M[op.key] = v
		rec.Val = v
	case 'D':
		delete(d.M, op.key)
	}
	d.Log = append(d.Log, rec)
	w.Ev("disk", int(op.key), "%s %c %#x reached the medium although the process stopped", g, op.kind, op.key)
	if h, ok := w.X.(interface{ OnDisk(*DiskOp) }); ok {
		h.OnDisk(&d.Log[len(d.Log)-1])
	}
}

// stop is a process stop at this instant.
func (s *Sim) stop() {
	s.Stopped = true
	if h, ok := s.W.X.(interface{ OnStop(*Sim) }); ok {
		h.OnStop(s)
	}
}

// fs placeholders are in fs.go
