package sim

import (
	"fmt"
	"sort"
	"strings"
)

// Process stop and restart: the incarnation's bubble ends, only the disk image
// and the broker model survive; AdoptSession runs as the next incarnation.

// StopInfo is the reference model's view of the session at a stop.
type StopInfo struct {
	Gen              int
	Step             int
	Lower            map[int]bool // publishes that must be resumed: accepted, final acknowledgement not handed to the client
	Upper            map[int]bool // publishes that may be resumed
	Rel              map[int]bool // of Upper: PUBREL record stored (resume at stage PUBREL)
	RelMaybe         map[int]bool // PUBREL Save was in progress
	Image            map[uint][]byte
	MarkerSaveFailed bool
}

// OnStop captures the reference view at the instant of the stop and severs
// the connections.
func (f *Flow) OnStop(s *Sim) {
	w := f.W
	if !s.ended {
		f.pollExchanges()
	}
	if f.FS != nil {
		f.resyncMirror()
	}
	si := &StopInfo{Gen: w.Gen, Step: w.Steps, Lower: map[int]bool{}, Upper: map[int]bool{}, Rel: map[int]bool{}, RelMaybe: map[int]bool{}}
	for _, pb := range f.Pubs {
		onDisk := false
		if pb.ID != 0 {
			if v, ok := w.Disk.M[uint(pb.ID)]; ok {
				if pkt, _, _, ok := StoredPacket(v); ok {
					if p, n, err := ParseOne(pkt, true); err == nil && n > 0 {
						if p.Type == PUBLISH && p.Topic == pb.Topic {
							onDisk = true
						}
						if p.Type == PUBREL && f.byID[pb.ID] == pb {
							onDisk = true
							si.Rel[pb.Idx] = true
						}
					}
				}
			}
		}
		acked := pb.ID != 0 && f.finalAckHanded(pb)
		if pb.Accepted() && !acked {
			si.Lower[pb.Idx] = true
		}
		// may be resumed: whatever is still stored (acknowledged but not
		// yet deleted, or its Save was in progress)
		if onDisk || si.Lower[pb.Idx] {
			si.Upper[pb.Idx] = true
		}
	}
	for _, op := range w.Disk.Log {
		if op.Gen == w.Gen && op.Kind == 'S' && op.Key&(1<<16) != 0 && op.Err && !op.Interrupted {
			si.MarkerSaveFailed = true
		}
	}
	si.Image = w.Disk.Snapshot()
	f.Stops = append(f.Stops, si)
	// what the client wrote but the broker has not consumed either arrives
	// or is lost
	for _, c := range s.conns {
		if w.Broker.Pending(c) {
			if w.Tape.Flip("lose", 400) {
				w.Faults["unread_input_lost"]++
				w.Broker.Drop(c)
			} else {
				w.Broker.Consume(c)
			}
		}
		c.Break(2)
	}
	w.Ev("stop", w.Gen, "incarnation %d stopped: must resume %d, may resume %d", w.Gen, len(si.Lower), len(si.Upper))
}

// prepareAdoption resets the per-incarnation state of the flow and recomputes
// what the ledger should expect from the disk image.
func (f *Flow) prepareAdoption() {
	w := f.W
	f.C = nil
	f.QStartStep = 0
	f.issuedStep = 0
	f.FaultSteps = 0
	f.OnlineConn = -1
	f.lastOnline = false
	w.FaultsOff = f.O.FaultFreeAfterStop
	w.MaxSteps = w.Steps + 30000
	// ownership markers are whatever the image holds
	f.Owned = map[uint16]int{}
	for k := range w.Disk.M {
		if k&(1<<16) != 0 {
			f.Owned[uint16(k)] = w.Steps
		}
	}
	f.Resumed = [3]int{}
	si := f.Stops[len(f.Stops)-1]
	for _, pb := range f.Pubs {
		pb.Ex = nil // the process that held the exchange channel is gone
		if si.Upper[pb.Idx] {
			if _, ok := w.Disk.M[uint(pb.ID)]; ok {
				pb.Deleted = false
				pb.Resumed = true
				pb.settled = 0
				f.reactivate(pb)
				f.Resumed[pb.QoS]++
				f.Carry[[2]int{w.Gen + 1, int(pb.QoS)}] = true
			}
		}
	}
	// requests of the old incarnation are gone with it
	for _, r := range f.Reqs {
		if r.Ret == 0 {
			r.Dead = true
		}
	}
}

// ---- C02: restart resumes exactly the unacknowledged set ----

type monC02 struct {
	NopMonitor
	checkedGen map[int]bool
}

func (m *monC02) Online(f *Flow, c *Conn) {
	w := f.W
	if m.checkedGen == nil {
		m.checkedGen = map[int]bool{}
	}
	if !f.AdoptedGen(c.Gen) || m.checkedGen[c.Gen] || len(f.Stops) == 0 {
		return
	}
	m.checkedGen[c.Gen] = true
	si := f.Stops[len(f.Stops)-1]
	// the first connection of the adopted client must be this one for the
	// comparison to be about the resend
	first := true
	for _, o := range w.AllConns {
		if o.Gen == c.Gen && o.id < c.id {
			first = false
		}
	}
	if !first {
		return
	}
	resent := map[int]bool{}
	var order [3][]*Pub
	for i := range c.Pkts {
		p := &c.Pkts[i]
		var pb *Pub
		switch p.Type {
		case PUBLISH:
			if p.QoS == 0 {
				continue
			}
			pb = f.byTopic[p.Topic]
		case PUBREL:
			pb = f.byID[p.ID]
		default:
			continue
		}
		if pb == nil {
			w.Violate("C02", "resent-unknown", typeNames[p.Type], "adopted client wrote %s on its first connection which no accepted publish explains", p.String())
			continue
		}
		if pb.Gen == c.Gen {
			continue // newly published in this incarnation
		}
		resent[pb.Idx] = true
		if pb.ID != p.ID {
			w.Violate("C02", "identifier-changed", fmt.Sprintf("q%d", pb.QoS), "publish #%d was stored with identifier %#04x and resumed as %#04x", pb.Idx, pb.ID, p.ID)
		}
		if !si.Upper[pb.Idx] {
			w.Violate("C02", "resumed-finished", fmt.Sprintf("q%d", pb.QoS), "adopted client resumed publish #%d (%s) which was neither pending nor stored at the stop", pb.Idx, p.String())
		}
		if pb.QoS == 2 && (p.Type == PUBREL) != si.Rel[pb.Idx] {
			w.Violate("C02", "wrong-stage", fmt.Sprintf("got-%s", typeNames[p.Type]), "publish #%d (id %#04x) resumed as %s, its stored record was a PUBREL: %v", pb.Idx, pb.ID, typeNames[p.Type], si.Rel[pb.Idx])
		}
		order[pb.QoS] = append(order[pb.QoS], pb)
	}
	for idx := range si.Lower {
		if !resent[idx] {
			pb := f.Pubs[idx]
			w.Violate("C02", "dropped", fmt.Sprintf("q%d", pb.QoS), "publish #%d (%s, id %#04x, accepted in incarnation %d) was pending at the stop and the adopted client did not resume it on its first connection", idx, pb.Topic, pb.ID, pb.Gen)
			// C05 states the same from the side of the wire order: after a
			// restart all unacknowledged ones are retransmitted before
			// anything newly submitted
			w.Violate("C05", "restart-resend-incomplete", fmt.Sprintf("q%d", pb.QoS), "conn%d came online without publish #%d (%s, id %#04x), which was unacknowledged at the stop: not all pending transfers were retransmitted after the restart", c.id, idx, pb.Topic, pb.ID)
		}
	}
	for lvl := 1; lvl <= 2; lvl++ {
		for i := 1; i < len(order[lvl]); i++ {
			a, b := order[lvl][i-1], order[lvl][i]
			d := (seqOf(b.ID) - seqOf(a.ID)) & 0x3fff
			if d == 0 || d > 0x2000 {
				w.Violate("C02", "order", fmt.Sprintf("q%d", lvl), "resumed %#04x (publish #%d) after %#04x (publish #%d): not the original order", b.ID, b.Idx, a.ID, a.Idx)
			}
		}
	}
	if len(resent) > 0 {
		w.Probe("resumed_after_restart")
	}
	if len(f.Stops) > 1 {
		w.Probe("second_restart_checked")
	}
}

func (m *monC02) Final(f *Flow) {
	w := f.W
	for g, warn := range f.AdoptWarn {
		if len(warn) > 0 && !f.DamagedGen[g] {
			w.Violate("C02", "warnings", warnKind(warn[0]), "AdoptSession (incarnation %d) on a stop-only history returned %d warnings, first: %v", g, len(warn), warn[0])
			break
		}
	}
	if f.AdoptFatal != nil && len(f.DamagedGen) == 0 {
		w.Violate("C02", "fatal", warnKind(f.AdoptFatal), "AdoptSession failed on a stop-only history: %v", f.AdoptFatal)
	}
	if w.Inconcl != "" || f.QStartStep == 0 || f.AdoptFatal != nil || f.O.Closers > 0 {
		return
	}
	if f.AdoptedGen(w.Gen) && !f.goalReached() && len(f.DamagedGen) == 0 {
		w.Violate("C02", "adopted-client-stuck", f.stuckWhere()[1:], "the adopted client (incarnation %d) did not complete its resumed and new transfers against a conforming, reachable broker within %v and %d steps; last ReadSlices errors: %v", w.Gen, f.S.Now()-f.QStartTime, w.Steps-f.QStartStep, lastErrs(f.ReaderErrs, 2))
		return
	}
	// nothing lost: every accepted message of every incarnation reached the
	// broker; no exactly-once message twice
	seen := map[string]int{}
	for _, d := range w.Broker.Deliv {
		seen[d.Topic]++
	}
	for _, pb := range f.Pubs {
		if pb.Accepted() && seen[pb.Topic] == 0 {
			w.Violate("C02", "lost", fmt.Sprintf("q%d", pb.QoS), "publish #%d (%s, accepted in incarnation %d) never reached the broker although the last incarnation quiesced", pb.Idx, pb.Topic, pb.Gen)
			return
		}
		if pb.QoS == 2 && seen[pb.Topic] > 1 {
			w.Violate("C02", "duplicate-exactly-once", "q2", "exactly-once publish #%d (%s) reached the broker's subscribers %d times across restarts", pb.Idx, pb.Topic, seen[pb.Topic])
			return
		}
	}
}

func lastErrs(errs []error, n int) []string {
	var out []string
	for i := len(errs) - n; i < len(errs); i++ {
		if i >= 0 {
			out = append(out, shortErr(errs[i]))
		}
	}
	return out
}

func warnKind(e error) string {
	s := e.Error()
	switch {
	case strings.Contains(s, "dropped"):
		return "dropped-due-gap"
	case strings.Contains(s, "corrupt"):
		return "corrupt"
	case strings.Contains(s, "truncated"):
		return "truncated"
	case strings.Contains(s, "Max is less"):
		return "max-less-than-pending"
	}
	return "other"
}

func sortedInts(m map[int]bool) []int {
	var l []int
	for k := range m {
		l = append(l, k)
	}
	sort.Ints(l)
	return l
}

// constructImage builds a disk image, in the documented record layout, that a
// previous process could have left behind, with the pending identifier ranges
// positioned at the 14-bit wrap-around. The ledger and the broker model get
// the matching history.
func (f *Flow) constructImage() {
	w := f.W
	t := w.Tape
	w.Gen = 1
	seqNo := uint64(1)
	w.Disk.M[0] = EncodeRecord([]byte(f.O.ClientID), seqNo)
	sess := &Session{ClientID: f.O.ClientID, InQ2: map[uint16]bool{}, Subs: map[string]byte{}}
	w.Broker.Sessions[f.O.ClientID] = sess
	si := &StopInfo{Gen: 1, Step: 0, Lower: map[int]bool{}, Upper: map[int]bool{}, Rel: map[int]bool{}, RelMaybe: map[int]bool{}}
	starts := []int{0x3ffd, 0x3ffe, 0x3fff, 0x3ffa, 0, 1, 0x2000}
	n1 := t.Draw("wrap-n1", 7)
	s1 := starts[t.Draw("wrap-s1", len(starts))]
	nrel := t.Draw("wrap-nrel", 4)
	n2 := t.Draw("wrap-n2", 5)
	s2 := starts[t.Draw("wrap-s2", len(starts))]
	if f.O.ALOMax >= 0 && n1 > f.O.ALOMax {
		n1 = f.O.ALOMax
	}
	if f.O.EOMax >= 0 && nrel+n2 > f.O.EOMax {
		nrel, n2 = 0, f.O.EOMax
	}
	add := func(qos byte, seq int, rel bool, i int) {
		space := uint16(0x8000)
		if qos == 2 {
			space = 0xc000
		}
		id := space | uint16(seq&0x3fff)
		topic := fmt.Sprintf("wrap/q%d/%d", qos, i)
		payload := []byte(topic + "|constructed")
		pb := &Pub{Idx: len(f.Pubs), Task: "previous-process", QoS: qos, Topic: topic, Payload: payload, Invoke: 0, Ret: 1, Gen: 1, ID: id, Saved: true, SavedAny: true, FirstWire: 1}
		f.Pubs = append(f.Pubs, pb)
		f.Active = append(f.Active, pb)
		f.byTopic[topic] = pb
		f.byID[id] = pb
		seqNo++
		if rel {
			pb.RelSaved = true
			w.Disk.M[uint(id)] = EncodeRecord(EncAck(PUBREL, id).Raw, seqNo)
			si.Rel[pb.Idx] = true
			// the broker has seen the PUBLISH and awaits PUBREL
			sess.InQ2[id] = true
			w.Broker.Deliv = append(w.Broker.Deliv, Delivery{QoS: 2, Topic: topic, Payload: payload, ID: id})
		} else {
			w.Disk.M[uint(id)] = EncodeRecord(EncPublish(qos, false, false, id, topic, payload).Raw, seqNo)
		}
		si.Lower[pb.Idx] = true
		si.Upper[pb.Idx] = true
	}
	for i := 0; i < n1; i++ {
		add(1, s1+i, false, i)
	}
	for i := 0; i < nrel+n2; i++ {
		add(2, s2+i, i < nrel, i)
	}
	if (s1+n1 > 0x3fff && n1 > 0) || (s2+nrel+n2 > 0x3fff && nrel+n2 > 0) {
		w.Probe("pending_range_straddles_wrap")
	}
	si.Image = w.Disk.Snapshot()
	f.Stops = append(f.Stops, si)
	w.Ev("image", 0, "constructed image: %d at-least-once from %#x, %d PUBREL + %d exactly-once from %#x", n1, s1, nrel, n2, s2)
}

func (f *Flow) reactivate(pb *Pub) {
	for _, a := range f.Active {
		if a == pb {
			return
		}
	}
	f.Active = append(f.Active, pb)
}
