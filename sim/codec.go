package sim

import (
	"errors"
	"fmt"
	"unicode/utf8"
)

// refcodec: an MQTT 3.1.1 encoder/decoder written from the OASIS text. It
// shares no code with the library under test. The decoder is strict.

const (
	CONNECT     = 1
	CONNACK     = 2
	PUBLISH     = 3
	PUBACK      = 4
	PUBREC      = 5
	PUBREL      = 6
	PUBCOMP     = 7
	SUBSCRIBE   = 8
	SUBACK      = 9
	UNSUBSCRIBE = 10
	UNSUBACK    = 11
	PINGREQ     = 12
	PINGRESP    = 13
	DISCONNECT  = 14
)

var typeNames = [...]string{"RESERVED0", "CONNECT", "CONNACK", "PUBLISH", "PUBACK", "PUBREC", "PUBREL", "PUBCOMP",
	"SUBSCRIBE", "SUBACK", "UNSUBSCRIBE", "UNSUBACK", "PINGREQ", "PINGRESP", "DISCONNECT", "RESERVED15"}

// Packet is a decoded control packet.
type Packet struct {
	Type  byte
	Flags byte
	Raw   []byte

	// PUBLISH
	Topic   string
	Payload []byte
	QoS     byte
	Dup     bool
	Retain  bool

	// PUBLISH QoS>0, PUBACK..PUBCOMP, SUBSCRIBE, SUBACK, UNSUBSCRIBE, UNSUBACK
	ID uint16

	// CONNECT
	ClientID    string
	Clean       bool
	KeepAlive   uint16
	HasWill     bool
	WillTopic   string
	WillMsg     []byte
	WillQoS     byte
	WillRetain  bool
	HasUser     bool
	User        string
	HasPass     bool
	Pass        []byte
	ProtoName   string
	ProtoLevel  byte
	ConnectFlag byte

	// SUBSCRIBE / UNSUBSCRIBE
	Filters []string
	MaxQoS  []byte

	// SUBACK
	Codes []byte

	// CONNACK
	SP bool
	RC byte
}

func (p *Packet) String() string {
	switch p.Type {
	case PUBLISH:
		s := fmt.Sprintf("PUBLISH q%d", p.QoS)
		if p.Dup {
			s += " DUP"
		}
		if p.Retain {
			s += " RET"
		}
		if p.QoS > 0 {
			s += fmt.Sprintf(" id=%#04x", p.ID)
		}
		t := p.Topic
		if len(t) > 24 {
			t = t[:24] + "…"
		}
		return s + fmt.Sprintf(" %q +%dB", t, len(p.Payload))
	case PUBACK, PUBREC, PUBREL, PUBCOMP, UNSUBACK:
		return fmt.Sprintf("%s id=%#04x", typeNames[p.Type], p.ID)
	case SUBSCRIBE, UNSUBSCRIBE:
		return fmt.Sprintf("%s id=%#04x n=%d", typeNames[p.Type], p.ID, len(p.Filters))
	case SUBACK:
		return fmt.Sprintf("SUBACK id=%#04x codes=%x", p.ID, p.Codes)
	case CONNECT:
		return fmt.Sprintf("CONNECT id=%q clean=%v", p.ClientID, p.Clean)
	case CONNACK:
		return fmt.Sprintf("CONNACK sp=%v rc=%d", p.SP, p.RC)
	}
	return typeNames[p.Type&15]
}

var errMalformed = errors.New("refcodec: malformed packet")

func malformed(format string, a ...any) error {
	return fmt.Errorf("%w: "+format, append([]any{errMalformed}, a...)...)
}

// ParseOne decodes the first packet of buf. n == 0 with a nil error means the
// buffer holds an incomplete packet. fromClient selects the direction rules.
func ParseOne(buf []byte, fromClient bool) (p *Packet, n int, err error) {
	if len(buf) < 2 {
		return nil, 0, nil
	}
	head := buf[0]
	// remaining length, at most four bytes
	size, i := 0, 1
	for shift := uint(0); ; shift += 7 {
		if i >= len(buf) {
			if i > 4 {
				return nil, 0, malformed("remaining length over four bytes")
			}
			return nil, 0, nil
		}
		b := buf[i]
		i++
		size |= int(b&0x7f) << shift
		if b&0x80 == 0 {
			break
		}
		if shift == 21 {
			return nil, 0, malformed("remaining length over four bytes")
		}
	}
	if len(buf) < i+size {
		return nil, 0, nil
	}
	body := buf[i : i+size]
	p = &Packet{Type: head >> 4, Flags: head & 15, Raw: append([]byte(nil), buf[:i+size]...)}
	n = i + size

	str := func(b []byte) (string, []byte, error) {
		if len(b) < 2 {
			return "", nil, malformed("string length cut off")
		}
		l := int(b[0])<<8 | int(b[1])
		if len(b) < 2+l {
			return "", nil, malformed("string exceeds packet")
		}
		s := string(b[2 : 2+l])
		if !utf8.ValidString(s) {
			return "", nil, malformed("ill-formed UTF-8 string %q", s)
		}
		for k := 0; k < len(s); k++ {
			if s[k] == 0 {
				return "", nil, malformed("U+0000 in string")
			}
		}
		return s, b[2+l:], nil
	}
	id := func(b []byte) (uint16, []byte, error) {
		if len(b) < 2 {
			return 0, nil, malformed("packet identifier cut off")
		}
		v := uint16(b[0])<<8 | uint16(b[1])
		if v == 0 {
			return 0, nil, malformed("packet identifier zero")
		}
		return v, b[2:], nil
	}
	needFlags := func(want byte) error {
		if p.Flags != want {
			return malformed("%s with flags %#b", typeNames[p.Type], p.Flags)
		}
		return nil
	}
	clientOnly := func() error {
		if !fromClient {
			return malformed("%s from broker", typeNames[p.Type])
		}
		return nil
	}
	brokerOnly := func() error {
		if fromClient {
			return malformed("%s from client", typeNames[p.Type])
		}
		return nil
	}

	switch p.Type {
	case CONNECT:
		if err = clientOnly(); err != nil {
			return
		}
		if err = needFlags(0); err != nil {
			return
		}
		var rest []byte
		p.ProtoName, rest, err = str(body)
		if err != nil {
			return
		}
		if p.ProtoName != "MQTT" {
			return nil, 0, malformed("protocol name %q", p.ProtoName)
		}
		if len(rest) < 4 {
			return nil, 0, malformed("CONNECT variable header cut off")
		}
		p.ProtoLevel = rest[0]
		if p.ProtoLevel != 4 {
			return nil, 0, malformed("protocol level %d", p.ProtoLevel)
		}
		f := rest[1]
		p.ConnectFlag = f
		if f&1 != 0 {
			return nil, 0, malformed("CONNECT reserved flag set")
		}
		p.Clean = f&2 != 0
		p.HasWill = f&4 != 0
		p.WillQoS = f >> 3 & 3
		p.WillRetain = f&32 != 0
		p.HasPass = f&64 != 0
		p.HasUser = f&128 != 0
		if p.WillQoS == 3 {
			return nil, 0, malformed("will QoS 3")
		}
		if !p.HasWill && (p.WillQoS != 0 || p.WillRetain) {
			return nil, 0, malformed("will QoS/retain without will flag")
		}
		if p.HasPass && !p.HasUser {
			return nil, 0, malformed("password flag without user name flag")
		}
		p.KeepAlive = uint16(rest[2])<<8 | uint16(rest[3])
		rest = rest[4:]
		p.ClientID, rest, err = str(rest)
		if err != nil {
			return
		}
		if p.HasWill {
			p.WillTopic, rest, err = str(rest)
			if err != nil {
				return
			}
			if len(rest) < 2 {
				return nil, 0, malformed("will message cut off")
			}
			l := int(rest[0])<<8 | int(rest[1])
			if len(rest) < 2+l {
				return nil, 0, malformed("will message exceeds packet")
			}
			p.WillMsg = append([]byte{}, rest[2:2+l]...)
			rest = rest[2+l:]
		}
		if p.HasUser {
			p.User, rest, err = str(rest)
			if err != nil {
				return
			}
		}
		if p.HasPass {
			if len(rest) < 2 {
				return nil, 0, malformed("password cut off")
			}
			l := int(rest[0])<<8 | int(rest[1])
			if len(rest) < 2+l {
				return nil, 0, malformed("password exceeds packet")
			}
			p.Pass = append([]byte{}, rest[2:2+l]...)
			rest = rest[2+l:]
		}
		if len(rest) != 0 {
			return nil, 0, malformed("%d trailing bytes in CONNECT", len(rest))
		}
	case CONNACK:
		if err = brokerOnly(); err != nil {
			return
		}
		if err = needFlags(0); err != nil {
			return
		}
		if len(body) != 2 || body[0] > 1 {
			return nil, 0, malformed("CONNACK body %x", body)
		}
		p.SP = body[0] == 1
		p.RC = body[1]
	case PUBLISH:
		p.Dup = p.Flags&8 != 0
		p.QoS = p.Flags >> 1 & 3
		p.Retain = p.Flags&1 != 0
		if p.QoS == 3 {
			return nil, 0, malformed("PUBLISH QoS 3")
		}
		if p.QoS == 0 && p.Dup {
			return nil, 0, malformed("PUBLISH QoS 0 with DUP")
		}
		var rest []byte
		p.Topic, rest, err = str(body)
		if err != nil {
			return
		}
		if p.Topic == "" {
			return nil, 0, malformed("PUBLISH with empty topic")
		}
		for k := 0; k < len(p.Topic); k++ {
			if p.Topic[k] == '#' || p.Topic[k] == '+' {
				return nil, 0, malformed("PUBLISH topic with wildcard")
			}
		}
		if p.QoS > 0 {
			p.ID, rest, err = id(rest)
			if err != nil {
				return
			}
		}
		p.Payload = append([]byte{}, rest...)
	case PUBACK, PUBREC, PUBCOMP, UNSUBACK:
		if p.Type == UNSUBACK {
			if err = brokerOnly(); err != nil {
				return
			}
		}
		if err = needFlags(0); err != nil {
			return
		}
		var rest []byte
		p.ID, rest, err = id(body)
		if err != nil {
			return
		}
		if len(rest) != 0 {
			return nil, 0, malformed("%s with %d byte body", typeNames[p.Type], len(body))
		}
	case PUBREL:
		if err = needFlags(2); err != nil {
			return
		}
		var rest []byte
		p.ID, rest, err = id(body)
		if err != nil {
			return
		}
		if len(rest) != 0 {
			return nil, 0, malformed("PUBREL with %d byte body", len(body))
		}
	case SUBSCRIBE:
		if err = clientOnly(); err != nil {
			return
		}
		if err = needFlags(2); err != nil {
			return
		}
		var rest []byte
		p.ID, rest, err = id(body)
		if err != nil {
			return
		}
		if len(rest) == 0 {
			return nil, 0, malformed("SUBSCRIBE without filters")
		}
		for len(rest) > 0 {
			var f string
			f, rest, err = str(rest)
			if err != nil {
				return
			}
			if f == "" {
				return nil, 0, malformed("empty topic filter")
			}
			if len(rest) < 1 {
				return nil, 0, malformed("SUBSCRIBE QoS cut off")
			}
			if rest[0] > 2 {
				return nil, 0, malformed("SUBSCRIBE requested QoS %d", rest[0])
			}
			p.Filters = append(p.Filters, f)
			p.MaxQoS = append(p.MaxQoS, rest[0])
			rest = rest[1:]
		}
	case SUBACK:
		if err = brokerOnly(); err != nil {
			return
		}
		if err = needFlags(0); err != nil {
			return
		}
		var rest []byte
		p.ID, rest, err = id(body)
		if err != nil {
			return
		}
		p.Codes = append([]byte{}, rest...)
	case UNSUBSCRIBE:
		if err = clientOnly(); err != nil {
			return
		}
		if err = needFlags(2); err != nil {
			return
		}
		var rest []byte
		p.ID, rest, err = id(body)
		if err != nil {
			return
		}
		if len(rest) == 0 {
			return nil, 0, malformed("UNSUBSCRIBE without filters")
		}
		for len(rest) > 0 {
			var f string
			f, rest, err = str(rest)
			if err != nil {
				return
			}
			if f == "" {
				return nil, 0, malformed("empty topic filter")
			}
			p.Filters = append(p.Filters, f)
		}
	case PINGREQ, DISCONNECT:
		if err = clientOnly(); err != nil {
			return
		}
		if err = needFlags(0); err != nil {
			return
		}
		if len(body) != 0 {
			return nil, 0, malformed("%s with body", typeNames[p.Type])
		}
	case PINGRESP:
		if err = brokerOnly(); err != nil {
			return
		}
		if err = needFlags(0); err != nil {
			return
		}
		if len(body) != 0 {
			return nil, 0, malformed("PINGRESP with body")
		}
	default:
		return nil, 0, malformed("reserved packet type %d", p.Type)
	}
	return p, n, nil
}

func encLen(n int) []byte {
	var b []byte
	for {
		d := byte(n % 128)
		n /= 128
		if n > 0 {
			d |= 0x80
		}
		b = append(b, d)
		if n == 0 {
			return b
		}
	}
}

func mk(head byte, body []byte) Packet {
	raw := append([]byte{head}, encLen(len(body))...)
	raw = append(raw, body...)
	p, n, err := ParseOne(raw, false)
	if err != nil || n != len(raw) {
		// broker-side encoders may be asked for deviant packets; keep raw
		return Packet{Type: head >> 4, Flags: head & 15, Raw: raw}
	}
	return *p
}

func EncConnack(sp bool, rc byte) Packet {
	var f byte
	if sp {
		f = 1
	}
	return mk(CONNACK<<4, []byte{f, rc})
}

func EncAck(typ byte, id uint16) Packet {
	head := typ << 4
	if typ == PUBREL {
		head |= 2
	}
	return mk(head, []byte{byte(id >> 8), byte(id)})
}

func EncSuback(id uint16, codes []byte) Packet {
	return mk(SUBACK<<4, append([]byte{byte(id >> 8), byte(id)}, codes...))
}

func EncPingresp() Packet { return mk(PINGRESP<<4, nil) }

func EncPublish(qos byte, dup, retain bool, id uint16, topic string, payload []byte) Packet {
	head := byte(PUBLISH<<4) | qos<<1
	if dup {
		head |= 8
	}
	if retain {
		head |= 1
	}
	body := []byte{byte(len(topic) >> 8), byte(len(topic))}
	body = append(body, topic...)
	if qos > 0 {
		body = append(body, byte(id>>8), byte(id))
	}
	body = append(body, payload...)
	return mk(head, body)
}
