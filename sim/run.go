package sim

import (
	"encoding/json"
	"fmt"
	"os"
	"runtime"
	"runtime/debug"
	"runtime/metrics"
	"sort"
	"strings"
	"testing"
	"time"

	"github.com/pascaldekloe/mqtt"
	"github.com/pascaldekloe/mqtt/verifsim"
)

// RunSpec names one simulated run exactly.
type RunSpec struct {
	Prop     string   `json:"prop"`
	Fam      string   `json:"family"`
	Seed     uint64   `json:"seed"`
	Thorough bool     `json:"thorough"`
	Tape     []uint32 `json:"tape,omitempty"` // replay: the tape to follow
	Replay   bool     `json:"-"`
	Verbose  bool     `json:"-"`
	Param    int      `json:"param,omitempty"` // sweep parameter of enumerating families
	Param2   int      `json:"param2,omitempty"`
}

type RunResult struct {
	Spec    RunSpec
	Viol    []Violation
	Notes   []Violation // trips of monitors owned by other properties
	Steps   int
	SimTime time.Duration
	Faults  map[string]int
	Probes  map[string]int
	Hash    uint64
	ActHash uint64
	Tape    []uint32
	Labels  []string
	Inconcl string
	States  map[uint64]struct{}
	Text    []string
	Summary string
	Sweep   int // for enumerating families: size of the sweep dimension discovered by this run
	Touched bool
	// Faultless: the family has no fault dimension; a run is non-trivial
	// when Touched alone
	Faultless bool
	Panicked  string
}

// Family is one workload family of a property.
type Family struct {
	Cost int // extra cost per run in step equivalents (runs that are slow for other reasons than steps)
	Name string
	// Sweep: after a base run (Param 0) the worker runs the same seed with
	// Param 1..res.Sweep (complete single-fault enumeration relative to
	// the base run)
	Sweep bool
	Run   func(w *World, spec *RunSpec, res *RunResult)
	// Weight in the random swarm (0: only used by sweeps)
	Weight int
	// ThoroughOnly families run in the thorough tier only
	ThoroughOnly bool
}

var registry = map[string][]Family{}

func register(prop string, fams ...Family) { registry[prop] = append(registry[prop], fams...) }

// ExecRun executes one run in this process.
// LastFile, when set, receives the exact spec of the run in progress (crash
// and hang forensics by the driver).
var LastFile string

func ExecRun(t *testing.T, spec RunSpec) (res RunResult) {
	res.Spec = spec
	if LastFile != "" {
		b, _ := json.Marshal(spec)
		os.WriteFile(LastFile, b, 0o644)
	}
	var tape *Tape
	if spec.Replay {
		tape = ReplayTape(spec.Tape)
	} else {
		tape = NewTape(spec.Seed)
	}
	tape.KeepLabels = spec.Verbose
	w := NewWorld(t, tape, spec.Prop, spec.Fam)
	w.Verbose = spec.Verbose
	var fam *Family
	for i := range registry[spec.Prop] {
		if registry[spec.Prop][i].Name == spec.Fam {
			fam = &registry[spec.Prop][i]
		}
	}
	if fam == nil {
		panic(fmt.Sprintf("no family %s/%s", spec.Prop, spec.Fam))
	}
	gcOff()
	verifsim.SetSelect(1, 1) // also switches off time-slice preemption (runtime overlay)
	func() {
		defer func() {
			if r := recover(); r != nil {
				res.Panicked = fmt.Sprint(r)
				buf := make([]byte, 1<<14)
				buf = buf[:runtime.Stack(buf, false)]
				w.Violate("HARNESS", "panic", "scheduler", "panic on scheduler goroutine: %v\n%s", r, buf)
			}
		}()
		fam.Run(w, &spec, &res)
	}()
	verifsim.Hook = nil
	gcBetweenRuns()
	for _, v := range w.Viol {
		if v.Prop == spec.Prop || v.Prop == "HARNESS" {
			res.Viol = append(res.Viol, v)
		} else {
			res.Notes = append(res.Notes, v)
		}
	}
	res.Steps = w.Steps
	res.SimTime = w.SimTime
	res.Faults = w.Faults
	res.Probes = w.Probes
	res.Hash = w.Hash()
	res.ActHash = mix64(w.actSeq, uint64(spec.Param)) // sweep cases of one base run are distinct cases
	res.Tape = tape.Vals
	res.Labels = tape.Labels
	res.Inconcl = w.Inconcl
	res.States = w.States
	w.flushStep()
	res.Text = w.Text
	// goroutines that could not be unwound (a caller the library left
	// hanging) keep their stacks: cut what those reference
	if f, ok := w.X.(*Flow); ok {
		*f = Flow{}
	}
	*w = World{}
	return res
}

var debugFinal func(f *Flow)

var gcIsOff bool
var runsSinceGC int

// The collector stays off while a run executes: a collection cycle preempts
// the running goroutine cooperatively, which reorders goroutines that are
// runnable within one scheduler step. Collections happen between runs, and
// runtime.GC returns only when the cycle is complete.
func gcOff() {
	if !gcIsOff {
		debug.SetGCPercent(-1)
		gcIsOff = true
	}
}

var heapSample = []metrics.Sample{{Name: "/memory/classes/heap/objects:bytes"}}

func gcBetweenRuns() {
	runsSinceGC++
	if runsSinceGC < 32 {
		// runs with multi-megabyte payloads: collect as soon as the
		// live heap is large (cheap to sample)
		metrics.Read(heapSample)
		if heapSample[0].Value.Kind() != metrics.KindUint64 || heapSample[0].Value.Uint64() < 96<<20 {
			return
		}
	}
	runsSinceGC = 0
	runtime.GC()
}

// ---- the flow runner ----

// RunFlow executes the general client scenario for one incarnation.
func RunFlow(w *World, spec *RunSpec, tune func(f *Flow)) *Flow {
	f := &Flow{W: w, byTopic: map[string]*Pub{}, byID: map[uint16]*Pub{}, reqByMarker: map[string]*Req{}, handed: map[uint32][]HandedRef{}, fsInFlight: map[uint64]*DiskOp{}, LastReadTime: map[int]time.Duration{}, Owned: map[uint16]int{}, OnlineConn: -1}
	w.X = f
	f.O = drawFlowOpts(w.Tape, spec.Thorough)
	if tune != nil {
		tune(f)
	}
	w.Disk = NewDisk(w)
	w.Disk.Opts = f.O.Disk
	if f.O.FSStore {
		f.FS = NewSimFS(w)
	}
	w.Broker = NewBroker(w)
	w.Broker.Opts.SubCode = func(filter string, q byte) byte {
		if strings.HasSuffix(filter, "/fail") {
			return 0x80
		}
		return q
	}
	w.Broker.Opts.Refuse = f.Refuse
	w.Broker.Opts.NoConnack = f.O.MuteBroker
	f.HostileLeft = f.O.HostileN
	if f.O.HostileHandshake > 0 {
		w.Broker.HandshakeHook = f.hostileHandshake
	}
	w.Budget = f.O.Budget
	w.FaultFrom = f.O.FaultFrom
	if f.O.Generations < 1 {
		f.O.Generations = 1
	}
	f.AdoptWarn = map[int][]error{}
	f.DamagedGen = map[int]bool{}
	f.LeftoverGen = map[int]bool{}
	f.adopted = map[int]bool{}
	f.Carry = map[[2]int]bool{}
	w.StopParam = -1
	if f.O.Generations > 1 && !f.O.StopWhenPublished {
		w.StopParam = spec.Param - 1 // Param 0: no stop
	}
	if f.HoldFinalAcks {
		w.Broker.Hold = func(c *Conn, p Packet) bool {
			return p.Type == PUBACK || p.Type == PUBCOMP
		}
	}
	first := 1
	if f.O.Constructed {
		f.constructImage()
		first = 2
	}
	for g := first; g <= f.O.Generations; g++ {
		if f.HoldUntilLastGen {
			// final acknowledgements are withheld in every incarnation
			// but the last: transfers stay open across several stops
			// while newer ones overtake them
			w.Broker.Held = nil
			w.Broker.Hold = nil
			if g < f.O.Generations {
				w.Broker.Hold = func(c *Conn, p Packet) bool {
					return p.Type == PUBACK || p.Type == PUBCOMP
				}
			}
		}
		if g > 1 {
			if f.BetweenGens != nil {
				f.BetweenGens(f, g)
				if f.FS != nil {
					f.pushMirror()
				}
			}
			f.prepareAdoption()
			w.StopParam = -1
			if g < f.O.Generations && f.O.StopW == 0 {
				// later stops land at a drawn storage-operation boundary
				w.StopParam = w.Tape.Draw("stop-later", 60)
			}
		}
		w.StopBase = len(w.Disk.Log)
		if g == 1 {
			w.StopBase = 1 << 30 // stop points count from the end of InitSession
		}
		f.runGeneration(g > 1)
		if g == 1 {
			f.Gen1Ops = len(w.Disk.Log) - w.StopBase
		}
		if f.FatalSetup != nil || w.Inconcl != "" {
			break
		}
		if g < f.O.Generations && !f.S.Stopped {
			// the incarnation quiesced before its stop point: a stop
			// at rest
			f.OnStop(f.S)
		}
	}
	if debugFinal != nil {
		debugFinal(f)
	}
	for _, m := range f.Mon {
		m.Final(f)
	}
	return f
}

func (f *Flow) runGeneration(adopt bool) {
	w := f.W
	o := &f.O
	f.genStartStep = w.Steps
	RunBubble(w, func(s *Sim) {
		f.S = s
		f.lastOnline = false
		// the seed of the select poll order is a recorded draw: a replay
		// follows the same order
		verifsim.SetSelect(o.SelectMode, uint64(w.Tape.Draw("selseed", 1<<30))|1)
		mqtt.VerifSetReadBufSize(o.ReadBuf)
		w.Disk.Attach(s)
		var store mqtt.Persistence = w.Disk
		if f.FS != nil {
			f.FS.Attach(s)
			f.FS.StopCall = -1
			if adopt {
				f.armFSStop()
			}
			store = &obsStore{f: f, P: mqtt.FileSystem(fsDir), fs: f.FS}
		}
		s.Env = f.env
		w.Broker.SkipResend = nil
		w.Broker.Opts.ReuseIDs = o.ReuseIDs && !o.Clean
		if o.LazyResend && o.Generations <= 1 {
			// what the application was handed and the client has not
			// acknowledged on the wire is the client's to acknowledge
			// on the next connection, retransmission or not (C07)
			w.Broker.SkipResend = func(m *OutMsg) bool {
				for i := len(f.Recvs) - 1; i >= 0; i-- {
					if r := f.Recvs[i]; r.Out == m {
						return !r.Big && r.AckWire == 0 && r.Gen == w.Gen
					}
				}
				return false
			}
		}
		s.StarveP = o.StarveP
		if o.NoTick {
			s.tickW = 0
		}
		s.StepHook = f.stepHook
		s.Done = f.done
		s.OnLoopEnd = func() {
			f.ReaderInEnd = f.ReaderIn
			f.stalledInFaultPhase()
		}
		s.Unwind = func() {
			if f.C != nil {
				c := f.C
				go c.Close()
			}
		}
		faultsOff := w.FaultsOff
		w.FaultsOff = true // no faults while the session is set up
		f.pubTasksLive = o.Publishers
		f.reqTasksLive = o.Requesters
		s.Go("a-setup", func() {
			var c *mqtt.Client
			var err error
			if o.Volatile {
				w.Probe("volatile_session")
				c, err = mqtt.VolatileSession(o.ClientID, f.config(s))
			} else if !adopt {
				c, err = mqtt.InitSession(o.ClientID, store, f.config(s))
			} else {
				var warn []error
				f.adopted[w.Gen] = true
				c, warn, err = mqtt.AdoptSession(store, f.config(s))
				f.AdoptWarn[w.Gen] = warn
				if err != nil && !s.dead {
					f.AdoptFatal = err
				}
				for _, e := range warn {
					w.Ev("adopt", w.Gen, "warning: %v", e)
				}
				if err != nil {
					w.Ev("adopt", w.Gen, "fatal: %v", err)
				}
			}
			if w.StopBase == 0 || !adopt {
				// stop points count from the end of InitSession
				w.StopBase = len(w.Disk.Log)
			}
			if f.FS != nil && !adopt && err == nil {
				f.armFSStop()
			}
			w.FaultsOff = faultsOff
			if err != nil {
				if !s.dead {
					f.FatalSetup = err
				}
				f.pubTasksLive = 0
				f.reqTasksLive = 0
				return
			}
			f.C = c
			s.Go("reader", func() { f.readerTask(s) })
			for i := 0; i < o.Publishers; i++ {
				name := fmt.Sprintf("pub%d", i)
				s.Go(name, func() { f.pubTask(s, name, o.PerPub) })
			}
			for i := 0; i < o.Requesters; i++ {
				name := fmt.Sprintf("req%d", i)
				s.Go(name, func() { f.reqTask(s, name, o.PerReq) })
			}
			if f.Custom != nil {
				f.Custom(f, s)
			}
		})
	})
	if f.S != nil && f.S.CapHit && f.QStartStep == 0 {
		w.Inconcl = "step cap hit in the fault phase"
	}
}

// armFSStop places the kill of this incarnation at a drawn system call: at its
// entry, at its exit or inside the data write.
func (f *Flow) armFSStop() {
	w := f.W
	o := &f.O
	if w.Gen >= o.Generations || o.FSStopCalls == 0 {
		return
	}
	f.FS.StopCall = len(f.FS.Calls) + w.Tape.Draw("fs-stop-call", o.FSStopCalls)
	f.FS.StopPhase = w.Tape.Pick("fs-stop-phase", []int{2, 2, 3})
	if f.FS.StopPhase == 2 {
		f.FS.StopPhase = 2 + w.Tape.Draw("fs-stop-byte", 80)
	}
}

// ---- C01 ----

type monC01 struct {
	NopMonitor
	checkedA map[int]bool
	checkedC map[int]bool
}

func (m *monC01) Step(f *Flow) {
	w := f.W
	if m.checkedA == nil {
		m.checkedA, m.checkedC = map[int]bool{}, map[int]bool{}
	}
	for _, pb := range f.Active {
		if (pb.ExClosed || pb.Deleted) && !m.checkedA[pb.Idx] {
			m.checkedA[pb.Idx] = true
			if !pb.Accepted() && pb.Ret != 0 {
				continue
			}
			if !f.finalAckHanded(pb) {
				what := "exchange-closed"
				if pb.Deleted && (!pb.ExClosed || pb.DelStep <= pb.ExStep) {
					what = "record-deleted"
				}
				w.Violate("C01", "forged-progress", fmt.Sprintf("%s-q%d", what, pb.QoS),
					"publish #%d (%s, id %#04x): %s although the broker's final acknowledgement was never handed to the client", pb.Idx, pb.Topic, pb.ID, what)
			} else {
				w.Probe("completed_publish")
			}
		}
		if pb.Ret != 0 && !m.checkedC[pb.Idx] && !pb.Zombie && pb.Gen == w.Gen {
			m.checkedC[pb.Idx] = true
			if pb.Accepted() {
				if pb.FirstWire == 0 && len(pb.ExErrs) == 0 && !pb.ExClosed {
					w.Violate("C01", "first-transmission", fmt.Sprintf("q%d", pb.QoS),
						"publish #%d (%s) returned nil, its packet is not completely on any connection and its exchange carries no error", pb.Idx, pb.Topic)
				}
				if pb.FirstWire == 0 {
					w.Probe("accepted_while_down")
				}
			}
		}
	}
}

func (m *monC01) Online(f *Flow, c *Conn) {
	w := f.W
	for _, pb := range f.Pubs {
		if !pb.Accepted() || c.ConnackStep == 0 || pb.Ret >= c.ConnackStep {
			continue
		}
		if f.finalAckHanded(pb) {
			continue
		}
		onThis := false
		for _, wp := range c.Pkts {
			if wp.Type == PUBLISH && wp.Topic == pb.Topic {
				onThis = true
			}
			if wp.Type == PUBREL && pb.QoS == 2 && wp.ID == pb.ID && pb.RelSaved {
				onThis = true
			}
		}
		if !onThis {
			w.Violate("C01", "retransmission", fmt.Sprintf("q%d", pb.QoS),
				"Online on conn%d but unacknowledged publish #%d (%s, id %#04x) was not written on it", c.id, pb.Idx, pb.Topic, pb.ID)
		} else if len(pb.WireConns) > 1 {
			w.Probe("retransmitted")
		}
	}
}

func (m *monC01) Final(f *Flow) {
	w := f.W
	if f.FatalSetup != nil || w.Inconcl != "" || f.O.Closers > 0 {
		return
	}
	if f.QStartStep == 0 {
		return
	}
	// a publish call does not wait on the network: it has returned
	for _, pb := range f.Pubs {
		if pb.Gen == w.Gen && pb.Invoke != 0 && pb.Ret == 0 {
			w.Violate("C01", "liveness", fmt.Sprintf("q%d-call-never-returned%s", pb.QoS, f.stuckWhere()),
				"publish #%d (%s) was invoked at step %d and had not returned when the quiescence phase ended after %v; task parked at %q", pb.Idx, pb.Topic, pb.Invoke, f.S.Now()-f.QStartTime, f.S.FinalParks[pb.Task])
			return
		}
	}
	// every accepted message reached the broker at least once
	seen := map[string]int{}
	for _, d := range w.Broker.Deliv {
		seen[d.Topic]++
	}
	for _, pb := range f.Pubs {
		if !pb.Accepted() {
			continue
		}
		var miss []string
		if seen[pb.Topic] == 0 {
			miss = append(miss, "never-delivered")
		}
		if !pb.ExClosed && pb.Gen == w.Gen && !pb.Zombie {
			miss = append(miss, "exchange-open")
		}
		if !pb.Deleted && (pb.Gen == w.Gen || pb.Resumed) {
			miss = append(miss, "record-remains")
		}
		if len(miss) != 0 {
			w.Violate("C01", "liveness", fmt.Sprintf("q%d-%s%s", pb.QoS, miss[0], f.stuckWhere()),
				"quiescence phase ended after %v and %d steps: publish #%d (%s, id %#04x): %v; reader: %s", f.S.Now()-f.QStartTime, w.Steps-f.QStartStep, pb.Idx, pb.Topic, pb.ID, miss, f.readerWhere())
			return
		}
	}
}

// readerWhere describes where the reader task is parked.
func (f *Flow) readerWhere() string {
	if f.S == nil {
		return "?"
	}
	if p, ok := f.S.FinalParks["reader"]; ok {
		return p
	}
	return "not parked (blocked in the library or gone)"
}

// stuckWhere is a coarse discriminator for liveness signatures.
func (f *Flow) stuckWhere() string {
	if f.S != nil && f.S.Stuck {
		return "-stalled"
	}
	return "-spinning"
}

func allMonitors() []Monitor {
	return []Monitor{&monC12{}, &monC13{}, &monC15{}, &monC16{}, &monC01{}, &monC02{}, &monC03{}, &monC04{}, &monC05{}, &monC06{}, &monC07{}, &monC08{}, &monC10{}, &monC11{}, &monC14{}, &monC17{}, &monC18{}}
}

// flowFamily builds a family around the general flow. touched names the probes
// that make a run non-trivial for the property.
func flowFamily(tune func(f *Flow), touched ...string) func(w *World, spec *RunSpec, res *RunResult) {
	return func(w *World, spec *RunSpec, res *RunResult) {
		f := RunFlow(w, spec, func(f *Flow) {
			f.Mon = allMonitors()
			if tune != nil {
				tune(f)
			}
		})
		res.Summary = f.summary()
		if spec.Param == 0 && f.O.Generations > 1 && res.Sweep == 0 {
			res.Sweep = 2 * f.Gen1Ops
		}
		for _, p := range touched {
			if w.Probes[p] > 0 || w.Faults[p] > 0 {
				res.Touched = true
			}
		}
	}
}

func (f *Flow) summary() string {
	acc, done := 0, 0
	for _, pb := range f.Pubs {
		if pb.Accepted() {
			acc++
			if pb.ExClosed {
				done++
			}
		}
	}
	keys := make([]string, 0, len(f.W.Faults))
	for k, v := range f.W.Faults {
		keys = append(keys, fmt.Sprintf("%s=%d", k, v))
	}
	sort.Strings(keys)
	return fmt.Sprintf("pubs=%d accepted=%d completed=%d conns=%d steps=%d simtime=%v pause=%v readbuf=%d faults=%v", len(f.Pubs), acc, done, len(f.W.AllConns), f.W.Steps, f.W.SimTime, f.O.PauseTimeout, f.O.ReadBuf, keys)
}

func init() {
	volatileTune := func(f *Flow) {
		// VolatileSession: the package's in-memory store, no integrity
		// layer; identifiers and completion are read from the wire and the
		// exchange channels
		o := &f.O
		o.Volatile = true
		o.Generations = 1
		o.Disk = DiskOpts{}
		o.Publishers = 1 + f.W.Tape.Draw("npubV", 3)
		o.PerPub = 2 + f.W.Tape.Draw("perpubV", 6)
		o.Q2 = 600
		o.Inbound = f.W.Tape.Draw("ninV", 5)
		o.InQ = [3]int{1, 2, 3}
		if o.BreakW == 0 {
			o.BreakW = 2
		}
		o.Budget += 3
	}
	register("C01", Family{Name: "volatile", Weight: 1, Run: flowFamily(volatileTune, "retransmitted", "volatile_session")})
	register("C03", Family{Name: "volatile", Weight: 1, Run: flowFamily(volatileTune, "retransmitted", "volatile_session")})
	register("C05", Family{Name: "volatile", Weight: 1, Run: flowFamily(volatileTune, "retransmitted", "volatile_session")})
	register("C08", Family{Name: "volatile", Weight: 1, Run: flowFamily(volatileTune, "retransmitted", "volatile_session")})
	register("C01", Family{Name: "flow", Weight: 3, Run: flowFamily(nil, "retransmitted", "accepted_while_down")},
		Family{Name: "mixed", Weight: 1, Run: flowFamily(func(f *Flow) {
			f.O.Requesters = 1 + f.W.Tape.Draw("nreq", 2)
			f.O.PerReq = 1 + f.W.Tape.Draw("perreq", 5)
		}, "retransmitted", "accepted_while_down")})
	restartTune := func(q2 int) func(f *Flow) {
		return func(f *Flow) {
			o := &f.O
			o.Generations = 2 + f.W.Tape.Draw("gens", 3)
			o.FaultFreeAfterStop = true
			// a clean session requested by the adopted client makes the
			// broker forget which exactly-once identifiers it has seen:
			// duplicates are then the user's choice, not a defect
			o.Clean = false
			o.Publishers = 1 + f.W.Tape.Draw("npubR", 2)
			o.PerPub = 1 + f.W.Tape.Draw("perpubR", 5)
			if q2 >= 0 {
				o.Q2 = q2
			}
			o.ALOMax, o.EOMax = 64, 64
			if o.Budget > 3 {
				o.Budget = 3
			}
			// stops at any step (StopW families) not only in the first
			// steps of an incarnation
			o.StopFrom = []int{0, 10, 40, 120, 250}[f.W.Tape.Draw("stopfrom", 5)]
			if o.Generations > 2 && f.W.Tape.Flip("hold-until-last", 350) {
				f.HoldUntilLastGen = true
				o.StopWhenPublished = false
			}
		}
	}
	register("C02", Family{Name: "stops", Weight: 3, Sweep: true, Run: flowFamily(restartTune(-1), "resumed_after_restart")},
		Family{Name: "anywhere", Weight: 1, Run: flowFamily(func(f *Flow) {
			restartTune(-1)(f)
			f.O.StopW = 1
			f.O.FaultFreeAfterStop = false
		}, "resumed_after_restart")})
	register("C02", Family{Name: "fs-store", Weight: 2, Run: flowFamily(func(f *Flow) {
		restartTune(-1)(f)
		o := &f.O
		o.FSStore = true
		o.FSStopCalls = 60 + f.W.Tape.Draw("fs-stop-range", 200)
		o.Disk = DiskOpts{}
		o.BigPayload = 0
	}, "resumed_after_restart", "stop_inside_write")})
	register("C03", Family{Name: "stops", Weight: 1, Sweep: true, Run: flowFamily(restartTune(1000), "resumed_after_restart", "pubrel_resent")})
	register("C03", Family{Name: "flow", Weight: 1, Run: flowFamily(func(f *Flow) {
		f.O.Q2 = 1000
		if f.W.Tape.Flip("someq1", 300) {
			f.O.Q2 = 700
		}
	}, "pubrel_resent", "retransmitted")})
	register("C05", Family{Name: "sequential", Weight: 1, Run: flowFamily(func(f *Flow) {
		f.O.Publishers = 1
		f.O.PerPub = 4 + f.W.Tape.Draw("perpub5", 12)
		f.O.ALOMax, f.O.EOMax = 64, 64
	}, "resend_carried_dup")},
		Family{Name: "concurrent", Weight: 2, Run: flowFamily(func(f *Flow) {
			f.O.Publishers = 2 + f.W.Tape.Draw("npub5", 5)
			f.O.PerPub = 2 + f.W.Tape.Draw("perpub5", 6)
			if f.W.Tape.Flip("req5", 300) {
				f.O.Requesters, f.O.PerReq = 1, 4
			}
		}, "resend_carried_dup")})
	// two and more restarts with transfers of both levels open across them
	// (PUBRELs stored by one incarnation, new records by the next): what is
	// pending is retransmitted, in order, before anything new
	register("C05", Family{Name: "restarts", Weight: 1, Run: flowFamily(func(f *Flow) {
		restartTune(700)(f)
		o := &f.O
		o.Generations = 3 + f.W.Tape.Draw("gens5r", 2)
		o.StopW = 1
		if f.W.Tape.Flip("hold5r", 500) {
			f.HoldUntilLastGen = true
			o.StopWhenPublished = false
		}
	}, "second_restart_checked", "resumed_after_restart")})
	register("C04", Family{Name: "inbound", Weight: 1, Run: flowFamily(func(f *Flow) {
		f.O.Inbound = 1 + f.W.Tape.Draw("nin4", 8)
		f.O.InQ = [3]int{1, 1, 6}
		f.O.Publishers = f.W.Tape.Draw("npub4", 2)
		f.O.BreakW = 2 + f.W.Tape.Draw("breakw4", 3)
		f.O.Budget += 3
		f.O.ReuseIDs = f.W.Tape.Flip("reuse4", 500)
		if f.O.ReuseIDs {
			f.O.Clean = false
			f.O.InWindow = 1 + f.W.Tape.Draw("inwindow4", 3)
			f.O.Inbound += 3
			if f.W.Tape.Flip("reuse4-disk", 500) {
				// storage errors late in the cycle (marker removal):
				// keep the fault budget from draining on the network
				f.O.Disk.ErrBefore = 150
				f.O.Net.DialFail, f.O.Net.DialHang = 0, 0
				f.O.BreakW, f.O.PartW = 1, 0
				f.O.Budget = 6 + f.W.Tape.Draw("reuse4-budget", 6)
			}
		}
	}, "q2_retransmission_seen", "q2_duplicate_completed", "identifier_reused")})
	// process stops between delivery, reception record and PUBREC; the broker
	// retransmits to the next incarnation
	register("C04", Family{Name: "restarts", Weight: 1, Run: flowFamily(func(f *Flow) {
		restartTune(-1)(f)
		o := &f.O
		o.Generations = 2 + f.W.Tape.Draw("gens4r", 2)
		o.StopW = 2
		o.FaultFreeAfterStop = false
		o.Publishers = f.W.Tape.Draw("npub4r", 2)
		o.Inbound = 2 + f.W.Tape.Draw("nin4r", 6)
		o.InQ = [3]int{0, 1, 6}
		o.BreakW = 1 + f.W.Tape.Draw("breakw4r", 3)
		o.Budget = 3 + f.W.Tape.Draw("budget4r", 4)
	}, "q2_retransmission_seen", "resumed_after_restart")})
	// the same with reception records altered or truncated (not removed)
	// between the stop and the adoption: the record still marks the reception
	register("C04", Family{Name: "restarts-damaged-marker", Weight: 1, Run: flowFamily(func(f *Flow) {
		restartTune(-1)(f)
		o := &f.O
		o.Generations = 2 + f.W.Tape.Draw("gens4m", 2)
		o.StopW = 2
		o.FaultFreeAfterStop = false
		o.Publishers = f.W.Tape.Draw("npub4m", 2)
		o.Inbound = 3 + f.W.Tape.Draw("nin4m", 6)
		o.InQ = [3]int{0, 0, 1}
		o.BreakW = 1 + f.W.Tape.Draw("breakw4m", 3)
		o.Budget = 3 + f.W.Tape.Draw("budget4m", 4)
		o.StopFrom = 20 + f.W.Tape.Draw("stopfrom4m", 250)
		f.BetweenGens = func(f *Flow, gen int) {
			f.damageMarkers(1 + f.W.Tape.Draw("nmdmg", 2))
		}
	}, "damage_alter_marker", "damage_truncate_marker")})
	register("C06", Family{Name: "fragments", Weight: 1, Run: flowFamily(func(f *Flow) {
		o := &f.O
		f.StrictInbound = true
		// no fault other than fragmentation and progress-making expiries
		o.Net = NetOpts{Pipe: o.Net.Pipe, ShortRead: 600, OneByteRead: 300, ReadExpiry: 150, ExpiryNeedsProgress: true}
		o.Disk = DiskOpts{}
		o.BreakW, o.PartW = 0, 0
		o.NoTick = true
		o.Budget = 1000
		o.Publishers, o.Requesters = 0, 0
		if f.W.Tape.Flip("sub6", 400) {
			o.Requesters, o.PerReq = 1, 3
			o.ReqMix = [rkKinds]int{0, 0, 2, 1, 1, 2, 1}
			o.QuitMix = [4]int{1, 0, 0, 0}
		}
		o.ReadBuf = []int{64, 16, 32, 256, 1024, 128 * 1024}[f.W.Tape.Draw("rbuf6", 6)]
		o.Inbound = 1 + f.W.Tape.Draw("nin6", 8)
		o.InSizeMix = [4]int{3, 3, 2, 1}
		o.LongTopic = 200
		if o.PauseTimeout == 0 {
			o.Net.ReadExpiry = 0
		}
	}, "progress_making_expiry", "big_message", "short_read")})
	// connection loss in the middle of inbound traffic: retransmissions,
	// suppressed exactly-once duplicates (also larger than the read buffer)
	// and what follows them on the stream
	register("C06", Family{Name: "redelivery", Weight: 1, Run: flowFamily(func(f *Flow) {
		o := &f.O
		o.Publishers, o.Requesters = 0, 0
		o.Clean = false
		o.ReadBuf = []int{64, 16, 32, 256, 1024}[f.W.Tape.Draw("rbuf6r", 5)]
		o.Inbound = 3 + f.W.Tape.Draw("nin6r", 8)
		o.InQ = [3]int{1, 1, 4}
		o.InSizeMix = [4]int{3, 3, 3, 1}
		o.BreakW = 2 + f.W.Tape.Draw("breakw6r", 3)
		o.Budget += 4
		if f.W.Tape.Flip("saveerr6r", 400) {
			// a failing reception-record Save: ReadSlices reports the
			// error and keeps the connection; the stream must stay
			// aligned over the retry
			o.Disk.ErrBefore = 200
			o.Disk.ErrOnly = "S"
			o.BreakW = f.W.Tape.Draw("breakw6s", 2)
			o.Linger = 200 + f.W.Tape.Draw("linger6s", 400)
		}
	}, "duplicate_suppressed", "big_duplicate_suppressed", "return_matches_stream")})
	register("C07", Family{Name: "inbound", Weight: 1, Run: flowFamily(func(f *Flow) {
		f.O.Inbound = 1 + f.W.Tape.Draw("nin7", 10)
		f.O.InSizeMix = [4]int{6, 1, 1, 1}
		f.O.Publishers = f.W.Tape.Draw("npub7", 2)
		f.O.Requesters = f.W.Tape.Draw("nreq7", 3)
		f.O.PerReq = 3
		if f.O.ReadBuf == 128*1024 {
			f.O.ReadBuf = 256
		}
		f.O.ReuseIDs = f.W.Tape.Flip("reuse7", 400)
		if f.O.ReuseIDs {
			f.O.InWindow = 1 + f.W.Tape.Draw("inwindow7", 3)
		}
		f.O.LazyResend = f.W.Tape.Flip("lazyresend7", 500)
		if f.O.LazyResend {
			f.O.Clean = false
			if f.O.BreakW == 0 {
				f.O.BreakW = 2
			}
		}
	}, "ack_on_new_connection", "ack_after_ownership")})
	register("C10", Family{Name: "wedge", Weight: 1, Run: flowFamily(func(f *Flow) {
		f.O.Inbound = 1 + f.W.Tape.Draw("nin10", 8)
		f.O.InQ = [3]int{1, 3, 3}
		f.O.Publishers = 1 + f.W.Tape.Draw("npub10", 2)
		f.O.Requesters = 1 + f.W.Tape.Draw("nreq10", 3)
		f.O.PerReq = 2 + f.W.Tape.Draw("perreq10", 4)
		f.O.Net.WriteBreak = 60
		f.O.Net.ShortWrite = 60
		f.O.Budget += 4
		f.O.Backoff = !f.W.Tape.Flip("nobackoff10", 250)
		f.O.PartW = f.W.Tape.Draw("partw10", 3)
		f.O.HalfCloseW = 1 + f.W.Tape.Draw("halfclosew10", 4)
		if f.O.BreakW == 0 {
			f.O.BreakW = 1
		}
	}, "write_break", "short_write_timeout", "backoff_checked")})
	// the peer half-closes and stops reading while writers are busy and no
	// PauseTimeout bounds their writes: the read routine sees the end of the
	// stream and has to take the connection down under them
	register("C10", Family{Name: "half-close", Weight: 1, Run: flowFamily(func(f *Flow) {
		o := &f.O
		o.PauseTimeout = 0
		o.Inbound = f.W.Tape.Draw("nin10h", 4)
		o.Publishers = 1 + f.W.Tape.Draw("npub10h", 2)
		o.Requesters = 2 + f.W.Tape.Draw("nreq10h", 3)
		o.PerReq = 3 + f.W.Tape.Draw("perreq10h", 5)
		o.BigPayload = 400
		o.Net.DialFail, o.Net.DialHang, o.Net.WriteBreak, o.Net.ShortWrite = 0, 0, 0, 0
		o.PartW = 0
		o.BreakW = 3
		o.HalfCloseW = 12
		o.Budget = 1 + f.W.Tape.Draw("budget10h", 2) // nothing left for the peer's reset
		o.FaultFrom = 30 + f.W.Tape.Draw("faultfrom10h", 120)
		o.Backoff = !f.W.Tape.Flip("nobackoff10h", 250)
	}, "break_kind3", "backoff_checked")})
	// partitions without reset, preferably inside large inbound packets:
	// the client has only its PauseTimeout to notice
	register("C10", Family{Name: "partition", Weight: 1, Run: flowFamily(func(f *Flow) {
		o := &f.O
		o.Inbound = 2 + f.W.Tape.Draw("nin10p", 6)
		o.InQ = [3]int{2, 2, 2}
		o.InSizeMix = [4]int{1, 3, 3, 0}
		o.Publishers = f.W.Tape.Draw("npub10p", 2)
		o.Requesters = f.W.Tape.Draw("nreq10p", 3)
		o.PerReq = 1 + f.W.Tape.Draw("perreq10p", 3)
		o.PartW = 2 + f.W.Tape.Draw("partw10p", 4)
		o.BreakW = f.W.Tape.Draw("breakw10p", 2)
		if o.PauseTimeout == 0 && !f.W.Tape.Flip("nopause10p", 200) {
			o.PauseTimeout = 250 * time.Millisecond
		}
		o.Budget += 3
		o.Backoff = !f.W.Tape.Flip("nobackoff10p", 250)
	}, "partition_inside_packet", "backoff_checked")})
	register("C16", Family{Name: "damage", Weight: 1, Run: flowFamily(func(f *Flow) {
		restartTune(-1)(f)
		o := &f.O
		o.Generations = 2
		o.StopW = 2
		o.RWMin, o.RWMax = 100*time.Millisecond, time.Second
		o.PerPub = 2 + f.W.Tape.Draw("perpub16", 5)
		o.Inbound = f.W.Tape.Draw("nin16", 4)
		o.InQ = [3]int{0, 1, 3}
		// (a stop in the first steps leaves nothing but the client
		// identifier to damage)
		o.StopFrom = 20 + f.W.Tape.Draw("stopfrom16", 250)
		f.BetweenGens = func(f *Flow, gen int) {
			n := 1 + f.W.Tape.Draw("ndamage", 3)
			f.drawDamage(n, nil)
			f.addStray(f.W.Tape.Draw("nstray", 3))
		}
	}, "damaged_session_recovered")})
	// the same with connection and storage faults met by the adopted client
	// (a connection that breaks during the resend of adopted records): the
	// liveness oracles then start at the quiescence phase, as in C02/anywhere
	register("C16", Family{Name: "damage-faults", Weight: 1, Run: flowFamily(func(f *Flow) {
		restartTune(-1)(f)
		o := &f.O
		o.Generations = 2
		o.StopW = 2
		o.FaultFreeAfterStop = false
		o.Budget = 1 + f.W.Tape.Draw("budget16f", 3)
		o.RWMin, o.RWMax = 100*time.Millisecond, time.Second
		o.PerPub = 2 + f.W.Tape.Draw("perpub16f", 5)
		o.Inbound = f.W.Tape.Draw("nin16f", 3)
		o.InQ = [3]int{0, 1, 3}
		o.StopFrom = 20 + f.W.Tape.Draw("stopfrom16f", 250)
		f.BetweenGens = func(f *Flow, gen int) {
			if gen != 2 {
				return
			}
			f.drawDamage(1+f.W.Tape.Draw("ndamage16f", 2), nil)
		}
	}, "damaged_session_recovered")})
	// damage, adoption, more work, another stop and adoption: what the first
	// adoption abandoned stays in the store and must not trip the second
	register("C16", Family{Name: "damage-then-restart", Weight: 1, Run: flowFamily(func(f *Flow) {
		restartTune(-1)(f)
		o := &f.O
		o.Generations = 3
		o.StopW = 0
		f.HoldUntilLastGen = true
		o.StopWhenPublished = true // with the window full: acknowledgements are withheld
		o.RWMin, o.RWMax = 100*time.Millisecond, time.Second
		o.ALOMax = 2 + f.W.Tape.Draw("alomax16r", 3)
		o.EOMax = 2 + f.W.Tape.Draw("eomax16r", 3)
		o.Publishers = 2
		o.PerPub = 4 + f.W.Tape.Draw("perpub16r", 5)
		o.Inbound = 0
		f.BetweenGens = func(f *Flow, gen int) {
			if gen == 2 {
				// outbound records other than the oldest
				f.drawDamage(1+f.W.Tape.Draw("ndamage16r", 2), map[string]bool{"publish": true, "pubrel": true})
			} else if len(f.Damage) > 0 {
				f.LeftoverGen[gen] = true // what the first adoption abandoned is still stored
			}
		}
	}, "damaged_session_recovered", "second_adoption_after_damage")})
	register("C15", Family{Name: "single-byte", Weight: 3, Sweep: true, Run: func(w *World, spec *RunSpec, res *RunResult) {
		flowFamily(func(f *Flow) {
			o := &f.O
			o.Generations = 2
			o.FaultFreeAfterStop = true
			o.Clean = false
			o.Budget = 0
			o.Publishers = 1
			o.PerPub = 1 + f.W.Tape.Draw("perpub15", 3)
			o.BigPayload = 0
			o.ALOMax, o.EOMax = 64, 64
			o.Inbound = 0
			o.StopWhenPublished = true
			o.ReadBuf = 4096
			// final acknowledgements are withheld in the first incarnation,
			// so that PUBLISH and PUBREL records are pending at the stop
			f.HoldFinalAcks = true
			f.BetweenGens = func(f *Flow, gen int) {
				f.W.Broker.Hold = nil
				f.W.Broker.Held = nil
				cases := f.damageCases()
				res.Sweep = len(cases)
				if spec.Param > 0 && spec.Param <= len(cases) {
					f.applyDamage(cases[spec.Param-1])
				} else if spec.Param == 0 && len(cases) > 0 {
					// the base run samples one case
					f.applyDamage(cases[f.W.Tape.Draw("case", len(cases))])
				}
			}
		}, "damage_reported")(w, spec, res)
	}},
		Family{Name: "load-damage", Weight: 1, Run: flowFamily(func(f *Flow) {
			restartTune(-1)(f)
			o := &f.O
			o.Generations = 1 + f.W.Tape.Draw("gens15", 2)
			o.StopW = 1
			o.Disk.CorruptLoad = 150
			o.Budget = 2 + f.W.Tape.Draw("budget15", 4)
			o.Inbound = f.W.Tape.Draw("nin15", 3)
			o.InQ = [3]int{0, 1, 3}
			o.FaultFreeAfterStop = false
		}, "load_damaged")})
	// record layout under concurrent savers: publishers at both levels and
	// the read routine (PUBREL and inbound markers) write at the same time
	register("C15", Family{Name: "layout", Weight: 1, Run: flowFamily(func(f *Flow) {
		o := &f.O
		o.Publishers = 2 + f.W.Tape.Draw("npub15l", 3)
		o.PerPub = 2 + f.W.Tape.Draw("perpub15l", 4)
		o.Q2 = 500
		o.Inbound = 1 + f.W.Tape.Draw("nin15l", 4)
		o.InQ = [3]int{0, 1, 3}
		o.Budget = f.W.Tape.Draw("budget15l", 3)
	}, "record_layout_checked")})
	// the record layer on the real FileSystem store: savers of different
	// keys overlap in the file system, the process is killed at a drawn
	// system call, and what the next incarnation sends is what was saved
	// under that key
	register("C15", Family{Name: "fs-store", Weight: 1, Run: flowFamily(func(f *Flow) {
		restartTune(-1)(f)
		o := &f.O
		o.FSStore = true
		o.FSStopCalls = 60 + f.W.Tape.Draw("fs-stop-range15", 200)
		o.Disk = DiskOpts{}
		o.BigPayload = 0
		o.Publishers = 2 + f.W.Tape.Draw("npub15f", 2)
		o.PerPub = 2 + f.W.Tape.Draw("perpub15f", 4)
		o.Q2 = 500
		o.Inbound = f.W.Tape.Draw("nin15f", 3)
		o.InQ = [3]int{0, 1, 3}
	}, "resumed_after_restart", "record_layout_checked")})
	register("C16", Family{Name: "fs-leftovers", Weight: 1, Run: flowFamily(func(f *Flow) {
		// the process is killed inside the FileSystem store's Save: spool
		// files and partial writes are what the next incarnation finds
		restartTune(-1)(f)
		o := &f.O
		o.FSStore = true
		o.FSStopCalls = 40 + f.W.Tape.Draw("fs-stop-range16", 160)
		o.Disk = DiskOpts{}
		o.BigPayload = 0
		o.Publishers = 1 + f.W.Tape.Draw("npub16f", 2)
		o.PerPub = 3 + f.W.Tape.Draw("perpub16f", 5)
	}, "stop_inside_write", "resumed_after_restart")})
	register("C13", Family{Name: "hostile", Weight: 1, Run: flowFamily(func(f *Flow) {
		o := &f.O
		o.HostileN = 1 + f.W.Tape.Draw("nhostile", 4)
		if f.W.Tape.Flip("hhs-on", 400) {
			o.HostileHandshake = 300
		}
		o.Publishers = f.W.Tape.Draw("npub13", 3)
		o.Requesters = f.W.Tape.Draw("nreq13", 3)
		o.PerReq = 2 + f.W.Tape.Draw("perreq13", 3)
		o.Inbound = f.W.Tape.Draw("nin13", 5)
		o.InSizeMix = [4]int{4, 2, 2, 1}
		o.QuitMix = [4]int{4, 0, 1, 1}
		if o.ReadBuf > 4096 {
			o.ReadBuf = 256
		}
		o.Clean = false
	}, "violation_reset", "stall_timed_out")})
	closeTune := func(f *Flow) {
		o := &f.O
		o.Closers = 1 + f.W.Tape.Draw("nclosers", 3)
		o.CloserMix = [4]int{3, 2, 1, 1}
		o.CloserW = 1
		o.Publishers = f.W.Tape.Draw("npub12", 3)
		o.Requesters = f.W.Tape.Draw("nreq12", 3)
		o.PerReq = 2 + f.W.Tape.Draw("perreq12", 3)
		o.Inbound = f.W.Tape.Draw("nin12", 4)
		o.QuitMix = [4]int{3, 1, 1, 1}
		o.LazyExchanges = f.W.Tape.Flip("lazy-exchanges", 400)
		// dials that hang until cancelled and a broker that never answers
		// CONNECT: only Close/Disconnect can end those waits
		o.Net.DialHangForever = true
		if f.W.Tape.Flip("dialhang12", 300) {
			o.Net.DialHang = 400
			if o.Budget < 2 {
				o.Budget = 2
			}
		}
		o.MuteBroker = f.W.Tape.Flip("mute12", 150)
	}
	register("C12", Family{Name: "closers", Weight: 3, Run: flowFamily(closeTune, "closer_dialing", "closer_awaiting-connack", "closer_resending", "closer_online-writer-in-flight", "closer_offline", "closer_online", "closer_never-connected")},
		Family{Name: "close-sweep", Weight: 1, Sweep: true, Run: func(w *World, spec *RunSpec, res *RunResult) {
			flowFamily(func(f *Flow) {
				closeTune(f)
				if spec.Param > 0 {
					f.O.CloserAtStep = spec.Param
				} else {
					f.O.Closers = 0 // base run: learn the number of steps
				}
			}, "closer_dialing", "closer_awaiting-connack", "closer_resending", "closer_online-writer-in-flight", "closer_offline")(w, spec, res)
			if spec.Param == 0 {
				res.Sweep = w.Steps
				if res.Sweep > 400 {
					res.Sweep = 400
				}
			}
		}})
	register("C08", Family{Name: "concurrent", Weight: 1, Run: flowFamily(func(f *Flow) {
		f.O.Requesters = 1 + f.W.Tape.Draw("nreq", 3)
		f.O.PerReq = 2 + f.W.Tape.Draw("perreq", 6)
		f.O.Net.ShortWrite = 200
		f.O.Net.WriteBreak = 40
		if f.O.PauseTimeout == 0 {
			f.O.PauseTimeout = 250 * time.Millisecond
		}
		f.O.BigPayload = 200
		f.O.Budget += 6
		f.O.InvalidArg = 150
		if f.O.Publishers == 0 {
			f.O.Publishers = 1
		}
	}, "short_write_timeout", "write_break")})
	register("C11", Family{Name: "requests", Weight: 400, Run: flowFamily(func(f *Flow) {
		f.O.Publishers = f.W.Tape.Draw("npub11", 2)
		f.O.Requesters = 2 + f.W.Tape.Draw("nreq11", 6)
		f.O.PerReq = 1 + f.W.Tape.Draw("perreq11", 5)
		f.O.ReqMix = [rkKinds]int{1, 0, 3, 1, 1, 3, 3}
		if f.W.Tape.Flip("blocked-writer", 200) {
			// a writer that blocks for good (no PauseTimeout, a peer that
			// takes nothing) with requests queued behind it: their quit
			// still has to work
			f.O.PauseTimeout = 0
			f.O.PartW = 3
			f.O.HalfCloseW = 3
			if f.O.BreakW == 0 {
				f.O.BreakW = 1
			}
			f.O.BigPayload = 300
			f.O.QuitMix = [4]int{2, 1, 1, 6}
			f.O.Budget += 3
		}
		if f.W.Tape.Flip("ping-heavy", 300) {
			// the single ping slot under contention: quits, lost
			// connections and pongs of abandoned pings
			f.O.ReqMix = [rkKinds]int{2, 0, 1, 0, 0, 1, 10}
			f.O.QuitMix = [4]int{2, 1, 3, 4}
			f.O.Requesters = 2 + f.W.Tape.Draw("nreq11p", 3)
			f.O.PerReq = 3 + f.W.Tape.Draw("perreq11p", 5)
		}
	}, "answered_request", "quit_closed_during_request")})
	// the single ping slot: several pingers with quits behind a busy write
	// lock, so that pongs of abandoned pings meet callbacks of pings that
	// still wait for their submission
	register("C11", Family{Name: "ping-slot", Weight: 100, Run: flowFamily(func(f *Flow) {
		o := &f.O
		o.Publishers = 0
		o.BigPayload = 500
		o.Inbound = 0
		o.Requesters = 2 + f.W.Tape.Draw("nreq11s", 3)
		o.PerReq = 4 + f.W.Tape.Draw("perreq11s", 8)
		o.ReqMix = [rkKinds]int{2, 0, 0, 0, 0, 0, 8}
		o.QuitMix = [4]int{1, 0, 2, 6}
	}, "answered_ping", "quit_closed_during_request")})
	// requests issued while the read routine tears a connection down that is
	// still writable (deadline expiry, partition): nobody may be left waiting
	// on the dead connection
	register("C11", Family{Name: "teardown", Weight: 100, Run: flowFamily(func(f *Flow) {
		o := &f.O
		// storage errors in the acknowledgement handlers take a healthy
		// connection down, too
		o.Publishers = 1 + f.W.Tape.Draw("npub11t", 2)
		o.PerPub = 3 + f.W.Tape.Draw("perpub11t", 5)
		o.Disk.ErrBefore = 300
		o.Disk.ErrOnly = "D" // record removal happens in the acknowledgement handlers only
		o.Inbound = 2 + f.W.Tape.Draw("nin11t", 4)
		o.InSizeMix = [4]int{2, 2, 2, 0}
		o.Requesters = 3 + f.W.Tape.Draw("nreq11t", 3)
		o.PerReq = 8 + f.W.Tape.Draw("perreq11t", 10)
		o.ReqMix = [rkKinds]int{1, 0, 3, 1, 1, 3, 3}
		o.QuitMix = [4]int{6, 1, 0, 1}
		if o.PauseTimeout == 0 {
			o.PauseTimeout = 250 * time.Millisecond
		}
		o.Net.ReadExpiry = 0
		o.PartW = 0
		o.BreakW = 0
		o.Net.DialFail, o.Net.DialHang = 0, 0
		// few faults: a caller left behind by one teardown is released by
		// the next one, the last teardown is the one that shows
		o.Budget = 1 + f.W.Tape.Draw("budget11t", 3)
		o.FaultFrom = f.W.Tape.Draw("faultfrom11t", 150)
		o.StarveP = 80
		o.Net.SlowClose = true
		o.BigPayload = 400
	}, "healthy_connection_closed_by_client", "disk_err_before_D", "goroutine_held_back")})
	register("C11", Family{Name: "id-window", Weight: 40, Run: flowFamily(func(f *Flow) {
		o := &f.O
		o.Publishers, o.Requesters, o.Inbound = 0, 0, 0
		o.Net = NetOpts{Pipe: o.Net.Pipe}
		o.Disk = DiskOpts{}
		o.BreakW, o.Budget = 0, 0
		o.PauseTimeout = 250 * time.Millisecond
		f.W.MaxSteps = 2000000
		f.Custom = func(f *Flow, s *Sim) { f.idWindowTasks(s) }
	}, "identifier_window_wrapped")})
	register("C17", Family{Name: "id-window", Weight: 60, Run: flowFamily(func(f *Flow) {
		// the subscribe/unsubscribe identifier counter once around while a
		// request is pending: its identifier must be skipped
		o := &f.O
		o.Publishers, o.Requesters, o.Inbound = 0, 0, 0
		o.Net = NetOpts{Pipe: o.Net.Pipe}
		o.Disk = DiskOpts{}
		o.BreakW, o.Budget = 0, 0
		o.PauseTimeout = 250 * time.Millisecond
		f.W.MaxSteps = 2000000
		f.Custom = func(f *Flow, s *Sim) { f.idWindowTasks(s) }
	}, "identifier_window_wrapped")})
	register("C14", Family{Name: "matrix", Weight: 1, Run: flowFamily(func(f *Flow) {
		f.O.Publishers = f.W.Tape.Draw("npub14", 2)
		f.O.Requesters = 2 + f.W.Tape.Draw("nreq14", 4)
		f.O.PerReq = 2 + f.W.Tape.Draw("perreq14", 5)
		f.O.QuitMix = [4]int{2, 1, 2, 3}
		// rejected persisted publishes (storage errors) against small windows
		if f.W.Tape.Flip("persist14", 400) {
			f.O.Publishers = 1 + f.W.Tape.Draw("npub14b", 2)
			f.O.PerPub = 3 + f.W.Tape.Draw("perpub14", 6)
			f.O.ALOMax = 1 + f.W.Tape.Draw("alomax14", 3)
			f.O.EOMax = 1 + f.W.Tape.Draw("eomax14", 3)
			f.O.Disk.ErrBefore = 120
			f.O.Budget += 3
		}
	}, "class_ErrSubmit", "class_ErrBreak", "class_ErrDown", "class_ErrCanceled", "class_ErrAbandoned")})
	// the classes of requests that are in flight when the client is closed
	register("C14", Family{Name: "closing", Weight: 1, Run: flowFamily(func(f *Flow) {
		o := &f.O
		o.Publishers = f.W.Tape.Draw("npub14c", 2)
		o.Requesters = 3 + f.W.Tape.Draw("nreq14c", 3)
		o.PerReq = 3 + f.W.Tape.Draw("perreq14c", 5)
		o.ReqMix = [rkKinds]int{2, 0, 2, 1, 1, 2, 5}
		o.QuitMix = [4]int{5, 1, 1, 1}
		o.Closers = 1 + f.W.Tape.Draw("nclosers14", 2)
		o.CloserMix = [4]int{3, 2, 1, 1}
		o.CloserW = 1
	}, "class_ErrClosed", "closer_online", "closer_online-writer-in-flight")})
	register("C17", Family{Name: "windows", Weight: 600, Run: flowFamily(func(f *Flow) {
		f.O.ALOMax = []int{1, 0, 2, 3, -1, 20000}[f.W.Tape.Draw("alomax17", 6)]
		f.O.EOMax = []int{1, 0, 2, 3, -1, 20000}[f.W.Tape.Draw("eomax17", 6)]
		f.O.Publishers = 1 + f.W.Tape.Draw("npub17", 4)
		f.O.PerPub = 3 + f.W.Tape.Draw("perpub17", 8)
		f.O.Requesters = f.W.Tape.Draw("nreq17", 2)
		f.O.PerReq = 3
	}, "errmax_returned")})
	register("C17", Family{Name: "wrap", Weight: 600, Run: flowFamily(func(f *Flow) {
		o := &f.O
		o.Constructed = true
		o.Generations = 2 + f.W.Tape.Draw("gens17", 2)
		o.FaultFreeAfterStop = true
		o.StopW = 1
		o.Clean = false
		o.ALOMax = []int{64, 8, -1, 20000}[f.W.Tape.Draw("alomax17w", 4)]
		o.EOMax = []int{64, 8, -1, 20000}[f.W.Tape.Draw("eomax17w", 4)]
		o.Publishers = 1 + f.W.Tape.Draw("npub17w", 2)
		o.PerPub = 2 + f.W.Tape.Draw("perpub17w", 6)
		o.Budget = 2
	}, "pending_range_straddles_wrap")})
	register("C17", Family{Name: "long-wrap", Weight: 150, ThoroughOnly: true, Run: flowFamily(func(f *Flow) {
		// crosses the 14-bit identifier space for real: more than 16,384
		// publishes of one level through a small window
		o := &f.O
		o.Publishers = 1
		o.PerPub = 16500 + f.W.Tape.Draw("longwrap-extra", 400)
		o.Q2 = []int{0, 1000}[f.W.Tape.Draw("longwrap-level", 2)]
		o.ALOMax, o.EOMax = 4, 4
		o.BigPayload = 0
		o.Net = NetOpts{Pipe: o.Net.Pipe}
		o.Disk = DiskOpts{}
		o.BreakW = 1
		o.Budget = 6
		o.Requesters, o.Inbound = 0, 0
		o.PauseTimeout = 250 * time.Millisecond
		o.RWMin, o.RWMax = 10*time.Millisecond, time.Second
		f.W.MaxSteps = 6000000
		f.RetryErrMax = true
	}, "identifier_wrapped")})
	register("C02", Family{Name: "wrap", Weight: 1, Run: flowFamily(func(f *Flow) {
		o := &f.O
		o.Constructed = true
		o.Generations = 2 + f.W.Tape.Draw("gens2w", 3)
		o.FaultFreeAfterStop = true
		o.StopW = 1
		o.Clean = false
		o.ALOMax, o.EOMax = 64, 64
		o.Publishers = 1 + f.W.Tape.Draw("npub2w", 2)
		o.PerPub = 1 + f.W.Tape.Draw("perpub2w", 5)
		o.Budget = 2
	}, "pending_range_straddles_wrap", "resumed_after_restart")})
	register("C05", Family{Name: "wrap", Weight: 1, Run: flowFamily(func(f *Flow) {
		// retransmission order across the identifier wrap-around after a
		// restart, with new publishes queued behind the resumed ones
		o := &f.O
		o.Constructed = true
		o.Generations = 2 + f.W.Tape.Draw("gens5w", 2)
		o.FaultFreeAfterStop = true
		o.StopW = 1
		o.Clean = false
		o.ALOMax, o.EOMax = 64, 64
		o.Publishers = 1 + f.W.Tape.Draw("npub5w", 2)
		o.PerPub = 2 + f.W.Tape.Draw("perpub5w", 5)
		o.Budget = 2
	}, "pending_range_straddles_wrap", "resend_carried_dup")})
	register("C01", Family{Name: "wrap", Weight: 1, Run: flowFamily(func(f *Flow) {
		// the pending ranges at the identifier wrap-around, over restarts:
		// every accepted message still gets through
		o := &f.O
		o.Constructed = true
		o.Generations = 2 + f.W.Tape.Draw("gens1w", 2)
		o.FaultFreeAfterStop = true
		o.StopW = 1
		o.Clean = false
		o.ALOMax, o.EOMax = 64, 64
		o.Publishers = 1 + f.W.Tape.Draw("npub1w", 2)
		o.PerPub = 1 + f.W.Tape.Draw("perpub1w", 5)
		o.Budget = 2
	}, "pending_range_straddles_wrap", "resumed_after_restart")})
	register("C18", Family{Name: "connects", Weight: 1, Run: flowFamily(func(f *Flow) {
		f.O.Net.DialFail = 300
		f.O.Net.DialHang = 100
		f.O.BreakW = 3
		f.O.Budget += 4
		f.O.Requesters = 1 + f.W.Tape.Draw("nreq18", 2)
		f.O.PerReq = 2 + f.W.Tape.Draw("perreq18", 4)
		f.O.Clean = f.W.Tape.Flip("clean18", 600)
		if f.W.Tape.Flip("refuse18", 500) {
			n := f.W.Tape.Draw("refuse-n", 4)
			rc := byte(1 + f.W.Tape.Draw("refuse-rc", 7))
			if rc > 5 {
				rc = byte(6 + f.W.Tape.Draw("refuse-rc2", 250))
			}
			f.Refuse = func(k int) byte {
				if k == n {
					return rc
				}
				return 0
			}
		}
	}, "refused_connack_closed", "reconnect_without_clean", "dial_fail")})
}
