package sim

import (
	"net"
	"sort"
	"strconv"
	"strings"

	"github.com/pascaldekloe/mqtt"
	"github.com/pascaldekloe/mqtt/verifsim"
)

// obsStore runs the client on the real FileSystem store (over SimFS) and
// mirrors what the store holds into World.Disk, so that the ledger, the stop
// bookkeeping and the damage tools work on either store.
type obsStore struct {
	f  *Flow
	P  mqtt.Persistence
	fs *SimFS
}

func (o *obsStore) mirror(rec DiskOp) {
	w := o.f.W
	d := w.Disk
	rec.Gen = w.Gen
	rec.Step = w.Steps
	d.Log = append(d.Log, rec)
	if rec.Effect {
		switch rec.Kind {
		case 'S':
			d.M[rec.Key] = rec.Val
		case 'D':
			delete(d.M, rec.Key)
		}
	}
	w.Ev("disk", int(rec.Key), "fs %c %#x err=%v effect=%v", rec.Kind, rec.Key, rec.Err, rec.Effect)
	o.f.OnDisk(&d.Log[len(d.Log)-1])
}

func (o *obsStore) Load(key uint) ([]byte, error) {
	v, err := o.P.Load(key)
	if o.f.S.dead {
		return v, err
	}
	o.mirror(DiskOp{Kind: 'L', Key: key, Val: v, Err: err != nil})
	return v, err
}

func (o *obsStore) Save(key uint, value net.Buffers) error {
	var flat []byte
	for _, b := range value {
		flat = append(flat, b...)
	}
	gid := verifsim.Goid()
	o.f.fsInFlight[gid] = &DiskOp{Kind: 'S', Key: key, Val: flat}
	err := o.P.Save(key, value)
	if o.f.S.dead {
		return err
	}
	delete(o.f.fsInFlight, gid)
	o.mirror(DiskOp{Kind: 'S', Key: key, Val: flat, Err: err != nil, Effect: err == nil})
	return err
}

func (o *obsStore) Delete(key uint) error {
	gid := verifsim.Goid()
	o.f.fsInFlight[gid] = &DiskOp{Kind: 'D', Key: key}
	err := o.P.Delete(key)
	if o.f.S.dead {
		return err
	}
	delete(o.f.fsInFlight, gid)
	o.mirror(DiskOp{Kind: 'D', Key: key, Err: err != nil, Effect: err == nil})
	return err
}

func (o *obsStore) List() ([]uint, error) {
	keys, err := o.P.List()
	if o.f.S.dead {
		return keys, err
	}
	o.mirror(DiskOp{Kind: 'I', Err: err != nil})
	return keys, err
}

// resyncMirror makes World.Disk.M equal to what the frozen file system holds
// under key names, and books an operation that was in progress at the stop by
// its visible outcome.
func (f *Flow) resyncMirror() {
	w := f.W
	m := map[uint][]byte{}
	for name, ino := range f.FS.Dir {
		if !strings.HasPrefix(name, fsDir) {
			continue
		}
		base := name[len(fsDir):]
		if len(base) != 5 {
			continue
		}
		u, err := strconv.ParseUint(base, 16, 17)
		if err != nil {
			continue
		}
		m[uint(u)] = append([]byte{}, ino.data...)
	}
	var gids []uint64
	for g := range f.fsInFlight {
		gids = append(gids, g)
	}
	sort.Slice(gids, func(i, j int) bool { return gids[i] < gids[j] })
	for _, g := range gids {
		op := f.fsInFlight[g]
		cur, present := m[op.Key]
		effect := false
		switch op.Kind {
		case 'S':
			effect = present && string(cur) == string(op.Val)
		case 'D':
			effect = !present
		}
		if effect {
			rec := *op
			rec.Err, rec.Effect, rec.Interrupted, rec.Gen, rec.Step = true, true, true, w.Gen, w.Steps
			w.Disk.Log = append(w.Disk.Log, rec)
			f.OnDisk(&w.Disk.Log[len(w.Disk.Log)-1])
		}
	}
	f.fsInFlight = map[uint64]*DiskOp{}
	// a key whose file holds neither a complete old nor a complete new value
	// would show up in the adoption oracles as a corrupt record
	w.Disk.M = m
}

// pushMirror writes World.Disk.M back into the file system (image damage is
// applied to the mirror).
func (f *Flow) pushMirror() {
	for name := range f.FS.Dir {
		if strings.HasPrefix(name, fsDir) && len(name) == len(fsDir)+5 {
			delete(f.FS.Dir, name)
		}
	}
	for k, v := range f.W.Disk.M {
		name := fsDir + hex5(k)
		f.FS.Dir[name] = &inode{data: append([]byte{}, v...)}
	}
}

func hex5(k uint) string {
	s := strconv.FormatUint(uint64(k), 16)
	for len(s) < 5 {
		s = "0" + s
	}
	return s
}
