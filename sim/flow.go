package sim

import (
	"errors"
	"fmt"
	"strings"
	"time"

	"github.com/pascaldekloe/mqtt"
)

// Flow is the general client scenario: one session on a simulated disk, a
// read routine task, publisher and requester tasks, a reference broker, and a
// fault mix, all drawn from the tape. Property checks enable the oracles they
// own; the monitors of other properties still run but their trips are
// reported as notes only.

type FlowOpts struct {
	Net                NetOpts
	PauseTimeout       time.Duration
	RWMin, RWMax       time.Duration
	ALOMax             int
	EOMax              int
	ReadBuf            int
	Clean              bool
	KeepAlive          uint16
	Publishers         int
	PerPub             int
	Q2                 int  // permille of persisted publishes at exactly-once level
	Retain             int  // permille
	BigPayload         int  // permille of payloads in the KiB range
	BreakW             int  // weight of the environment action "break connection"
	PartW              int  // weight of the environment action "partition" (the connection goes silent)
	HalfCloseW         int  // share (against 4+4) of breaks that are a half-close: EOF for the reader while writes block
	FaultFrom          int  // faults only from this step on (the budget otherwise drains on the first opportunities)
	Linger             int  // faults continue for this many steps after the workload was issued
	MuteBroker         bool // the broker consumes and never answers (a handshake that only Close or Disconnect can end)
	InvalidArg         int  // permille of publisher iterations that first issue a request with an invalid topic
	Volatile           bool // the client is a VolatileSession (in-memory store of the package, no integrity layer)
	StopFrom           int  // the environment action "stop the process" only from this step of the incarnation on
	InWindow           int  // the broker's in-flight window: no new message while that many QoS 1/2 transactions are open (0: unlimited)
	ReuseIDs           bool // the broker reuses packet identifiers as soon as their transaction is complete
	LazyResend         bool // the broker postpones the retransmission of messages the application holds unacknowledged
	Budget             int
	SelectMode         uint32
	StarveP            int  // scheduler: permille per step of holding one goroutine back for a stretch
	Backoff            bool // reader uses ReadBackoff
	ClientID           string
	Requesters         int // tasks issuing Subscribe/Unsubscribe/Ping/Publish
	PerReq             int
	Inbound            int // application messages the broker sends
	InQ                [3]int
	StopAt             int  // process stop at this many completed storage operations (0: none)
	NoTick             bool // simulated time passes only when nothing else can happen
	Generations        int  // incarnations (1: no restart)
	FaultFreeAfterStop bool
	StopW              int    // weight of the environment action "stop the process"
	Constructed        bool   // the first incarnation is replaced by a constructed disk image (identifier wrap-around)
	FSStore            bool   // the session runs on the FileSystem store over the simulated os
	FSStopCalls        int    // the kill lands within this many system calls of the incarnation
	HostileN           int    // hostile injections per run
	HostileHandshake   int    // permille of CONNECTs answered by a hostile reply
	StopWhenPublished  bool   // the incarnation stops (at rest) once every publish call has returned
	LazyExchanges      bool   // the application does not receive from exchange channels until ReadSlices reported ErrClosed
	Closers            int    // Close/Disconnect invocations
	CloserMix          [4]int // Close, Disconnect(nil), Disconnect(open quit), Disconnect(closed quit)
	CloserW            int    // weight of starting the first closer
	CloserAtStep       int    // sweep: the first closer starts at this step
	ReqMix             [rkKinds]int
	QuitMix            [4]int
	FailFilter         int // permille of subscribe filters the broker fails
	Disk               DiskOpts
	LongTopic          int    // permille of inbound messages with a long topic
	InSizeMix          [4]int // small / around the read buffer / several buffers / empty
}

type Pub struct {
	Idx      int
	Task     string
	QoS      byte
	Retain   bool
	Topic    string
	Payload  []byte
	Invoke   int
	Ret      int
	RetTime  time.Duration
	InvTime  time.Duration
	Err      error
	Ex       <-chan error
	ExErrs   []error
	ExClosed bool
	ExStep   int
	Gen      int
	ID       uint16 // from the stored record
	Saved    bool   // a Save carrying this message completed without error
	SavedAny bool   // a Save carrying this message completed (error-after-effect counts)
	SaveStep int
	RelSaved bool // PUBREL record saved (PUBREC recorded)
	RelStep  int
	Deleted  bool
	DelStep  int
	// wire
	FirstWire   int // step of first complete PUBLISH on any connection (0 none)
	WireConns   []int
	OnlineAtRet bool
	NetParks    int  // network waits of the calling task during the call
	PrevHolder  *Pub // the publish that held this identifier before
	settled     int  // step at which it was seen done in every respect (0: not yet)
	Zombie      bool // the call returned after its process had been stopped
	Resumed     bool // stored at a stop and adopted by a later incarnation
}

func (p *Pub) Accepted() bool { return p.Ret != 0 && p.Err == nil }

type Flow struct {
	W       *World
	O       FlowOpts
	S       *Sim
	C       *mqtt.Client
	Cfg     mqtt.Config
	Pubs    []*Pub
	Active  []*Pub // publishes the per-step monitors still have to look at
	byTopic map[string]*Pub
	byID    map[uint16]*Pub
	handed  map[uint32][]HandedRef

	pubTasksLive      int
	reqTasksLive      int
	Reqs              []*Req
	reqByMarker       map[string]*Req
	PingReqWire       []int // steps at which a complete PINGREQ was on the wire
	QStartStep        int
	issuedStep        int // step at which the workload was completely issued
	genStartStep      int // step at which the current incarnation started
	failedAttemptStep int
	failedAttemptTime time.Duration
	StalledEarly      bool // the quiescence phase was declared because the world stalled with calls outstanding
	QStartTime        time.Duration
	QStartTick        time.Duration // TickTime when the quiescence phase began
	FaultSteps        int

	lastOnline     bool
	sigKnown       bool // the signals could be observed at the last step boundary
	OnlineSteps    []int
	OnlineConn     int // connection id of the last Online observation (-1 none)
	ReaderErrs     []error
	ReaderErrSteps []int
	Resumed        [3]int // transfers resumed by AdoptSession in the current incarnation, per level
	adopted        map[int]bool
	ReaderClosed   bool
	FatalSetup     error

	Recvs                        []*Recv
	StrictInbound                bool // no connection loss in this run: every message sent must be returned
	Backoffs                     []BackoffRec
	RSInvokes                    int
	RSReturns                    int
	LastRSReturn                 int
	InSent                       int            // application messages the broker has been given so far
	Owned                        map[uint16]int // inbound exactly-once identifiers whose marker is stored -> step of the Save
	FS                           *SimFS         // set when the session runs on the FileSystem store
	fsCallsInit                  int
	fsInFlight                   map[uint64]*DiskOp // Save/Delete in progress on the FileSystem store, per goroutine
	Damage                       []DamageRec
	Hostiles                     []*HostileInj
	HostileLeft                  int
	readerIdleAfterFailedAttempt bool
	ReaderIn                     string // API call the reader task is in
	ReaderInEnd                  string // ... when the scheduler loop ended
	LastReadTime                 map[int]time.Duration
	HoldFinalAcks                bool
	HoldUntilLastGen             bool // PUBACK and PUBCOMP are withheld in every incarnation but the last
	LoadDamage                   int  // Load results altered in flight
	lastSeq                      uint64
	Closers                      []*Closer
	ClosedAt                     int // step at which the first Close/Disconnect returned
	ClosedTime                   time.Duration
	ProbeDone                    bool
	LeakedLib                    int
	LeakSample                   string
	Stops                        []*StopInfo
	Carry                        map[[2]int]bool // (incarnation, level): transfers of that level were pending at its adoption
	Gen1Ops                      int             // storage operations of the first incarnation after InitSession
	AdoptWarn                    map[int][]error
	AdoptFatal                   error
	DamagedGen                   map[int]bool          // incarnations adopted from a deliberately damaged image
	LeftoverGen                  map[int]bool          // later incarnations on an image that still holds what an adoption abandoned because of damage
	RetryErrMax                  bool                  // publisher tasks wait for capacity instead of moving on (long runs)
	ActiveReqs                   []*Req                // requests the per-step monitors still have to look at
	Custom                       func(f *Flow, s *Sim) // extra tasks of a family, started after the session is set up
	Mon                          []Monitor
	BetweenGens                  func(f *Flow, gen int) // hook between a stop and the adoption (image damage)
	Refuse                       func(n int) byte
}

// Monitor is an oracle plugged into the flow.
type Monitor interface {
	Recv(f *Flow, r *Recv)
	Wire(f *Flow, c *Conn, p *WirePkt)
	Step(f *Flow)
	Online(f *Flow, c *Conn)
	Final(f *Flow)
}

type NopMonitor struct{}

func (NopMonitor) Recv(*Flow, *Recv)           {}
func (NopMonitor) Wire(*Flow, *Conn, *WirePkt) {}
func (NopMonitor) Step(*Flow)                  {}
func (NopMonitor) Online(*Flow, *Conn)         {}
func (NopMonitor) Final(*Flow)                 {}

func (f *Flow) Net() *NetOpts { return &f.O.Net }

func (f *Flow) OnConn(c *Conn) {
	c.OnWire = func(c *Conn, p *WirePkt) {
		if p.Type == PUBLISH && p.QoS > 0 {
			if pb := f.byTopic[p.Topic]; pb != nil {
				if f.O.Volatile && pb.ID == 0 {
					// no storage operations to learn the identifier from
					pb.ID = p.ID
					pb.SavedAny, pb.Saved = true, true
					f.byID[p.ID] = pb
				}
				if pb.FirstWire == 0 {
					pb.FirstWire = f.W.Steps
				}
				if n := len(pb.WireConns); n == 0 || pb.WireConns[n-1] != c.id {
					pb.WireConns = append(pb.WireConns, c.id)
				}
			}
		}
		if f.O.Volatile && p.Type == PUBREL {
			// the PUBREL replaced the PUBLISH in the (unobserved) store
			// before it was written
			if pb := f.byID[p.ID]; pb != nil && !pb.RelSaved {
				pb.RelSaved = true
				pb.RelStep = c.firstByteStep(p.Off)
			}
		}
		f.reqWire(c, p)
		for _, m := range f.Mon {
			m.Wire(f, c, p)
		}
	}
}

// StoredPacket splits a stored value into packet and trailer per the
// documented layout; ok is false when the value is too short.
func StoredPacket(v []byte) (packet []byte, seq uint64, sum uint32, ok bool) {
	if len(v) < 12 {
		return nil, 0, 0, false
	}
	t := v[len(v)-12:]
	for i := 7; i >= 0; i-- {
		seq = seq<<8 | uint64(t[i])
	}
	sum = uint32(t[8])<<24 | uint32(t[9])<<16 | uint32(t[10])<<8 | uint32(t[11])
	return v[:len(v)-12], seq, sum, true
}

// storedWithinMaximum (C17): the records of a level in the Persistence are its
// transfers in flight; a Save never takes their number above the maximum.
func (f *Flow) storedWithinMaximum(op *DiskOp) {
	if op.Key == 0 || op.Key&(1<<16) != 0 || op.Key > 0xffff || len(f.DamagedGen) != 0 || f.O.Constructed || f.S == nil || f.S.dead {
		return
	}
	space := op.Key &^ 0x3fff
	max := effMax(f.O.ALOMax)
	q := 1
	if space == 0xc000 {
		max, q = effMax(f.O.EOMax), 2
	} else if space != 0x8000 {
		return
	}
	n := 0
	for k := range f.W.Disk.M {
		if k != 0 && k <= 0xffff && k&^0x3fff == space {
			n++
		}
	}
	if n > max {
		f.W.Violate("C17", "over-maximum", fmt.Sprintf("stored-q%d", q), "the Save of key %#04x at step %d takes the stored transfers of that level to %d, the maximum is %d", op.Key, op.Step, n, max)
	}
}

func (f *Flow) OnDisk(op *DiskOp) {
	if op.Key&(1<<16) != 0 && op.Effect {
		id := uint16(op.Key)
		switch op.Kind {
		case 'S':
			if _, ok := f.Owned[id]; !ok {
				f.Owned[id] = op.Step
			}
		case 'D':
			delete(f.Owned, id)
		}
	}
	if op.Kind == 'S' && op.Effect {
		for _, m := range f.Mon {
			if c15, ok := m.(*monC15); ok {
				c15.OnSave(f, op)
			}
		}
		f.storedWithinMaximum(op)
	}
	switch op.Kind {
	case 'S':
		if !op.Effect {
			return
		}
		pkt, _, _, ok := StoredPacket(op.Val)
		if !ok || op.Key == 0 || op.Key&(1<<16) != 0 {
			return
		}
		p, n, err := ParseOne(pkt, true)
		if err != nil || n == 0 {
			return
		}
		switch p.Type {
		case PUBLISH:
			if pb := f.byTopic[p.Topic]; pb != nil {
				pb.ID = p.ID
				pb.SavedAny = true
				if !op.Err {
					pb.Saved = true
				}
				pb.SaveStep = op.Step
				if old := f.byID[p.ID]; old != nil && old != pb {
					pb.PrevHolder = old
				}
				f.byID[p.ID] = pb
			}
		case PUBREL:
			if pb := f.byID[p.ID]; pb != nil && !pb.RelSaved {
				pb.RelSaved = true
				pb.RelStep = op.Step
			}
		}
	case 'D':
		if !op.Effect || op.Key == 0 || op.Key&(1<<16) != 0 {
			return
		}
		if pb := f.byID[uint16(op.Key)]; pb != nil && !pb.Deleted {
			pb.Deleted = true
			pb.DelStep = op.Step
		}
	}
}

func drawFlowOpts(t *Tape, thorough bool) FlowOpts {
	var o FlowOpts
	o.SelectMode = uint32(1 + t.Draw("selmode", 3))
	o.StarveP = []int{0, 0, 20, 60}[t.Draw("starvep", 4)]
	o.PauseTimeout = []time.Duration{250 * time.Millisecond, 50 * time.Millisecond, 2 * time.Second, 0}[t.Draw("pause", 4)]
	o.RWMin = []time.Duration{0, 10 * time.Millisecond, 100 * time.Millisecond}[t.Draw("rwmin", 3)]
	o.RWMax = []time.Duration{0, time.Second, time.Minute}[t.Draw("rwmax", 3)]
	o.ALOMax = []int{64, 1, 2, 3, 8}[t.Draw("alomax", 5)]
	o.EOMax = []int{64, 1, 2, 3, 8}[t.Draw("eomax", 5)]
	o.ReadBuf = []int{128 * 1024, 64, 256, 4096}[t.Draw("rbuf", 4)]
	o.Clean = t.Flip("clean", 300)
	o.Publishers = 1 + t.Draw("npub", 3)
	o.PerPub = 1 + t.Draw("perpub", 8)
	o.Q2 = []int{500, 0, 1000, 200}[t.Draw("q2", 4)]
	o.Retain = 200
	o.BigPayload = 50
	o.Backoff = !t.Flip("nobackoff", 150)
	o.ClientID = "sim-client"
	o.Net.Pipe = t.Flip("pipe", 500)
	// swarm: each fault kind is enabled for a subset of runs
	if t.Flip("f-shortread", 500) {
		o.Net.ShortRead = 300
		o.Net.OneByteRead = 300
	}
	if t.Flip("f-rexp", 400) {
		o.Net.ReadExpiry = 40
	}
	if t.Flip("f-shortwrite", 400) {
		o.Net.ShortWrite = 60
	}
	if t.Flip("f-wbreak", 400) {
		o.Net.WriteBreak = 30
	}
	o.Net.SlowClose = t.Flip("slowclose", 400)
	if t.Flip("f-dial", 400) {
		o.Net.DialFail = 250
		o.Net.DialHang = 100
	}
	if t.Flip("f-break", 600) {
		o.BreakW = 1 + t.Draw("breakw", 3)
		o.HalfCloseW = []int{0, 0, 1, 3}[t.Draw("halfclosew", 4)]
	}
	if t.Flip("f-part", 250) {
		o.PartW = 1 + t.Draw("partw", 2)
	}
	if t.Flip("f-disk", 400) {
		o.Disk.ErrBefore = 40
	}
	o.Disk.Shuffle = t.Flip("lshuffle", 500)
	o.Disk.AliasLoad = t.Flip("aliasload", 300)
	o.Budget = t.Draw("budget", 9)
	o.FaultFrom = []int{0, 0, 0, 0, 40, 100, 200}[t.Draw("faultfrom", 7)]
	o.Linger = []int{0, 0, 30, 100, 300}[t.Draw("linger", 5)]
	o.ReqMix = [rkKinds]int{3, 1, 2, 1, 1, 2, 2}
	o.QuitMix = [4]int{4, 2, 1, 2}
	o.FailFilter = 200
	o.InQ = [3]int{1, 1, 1}
	o.InSizeMix = [4]int{6, 1, 1, 1}
	return o
}

func (f *Flow) config(s *Sim) *mqtt.Config {
	o := &f.O
	cfg := mqtt.Config{
		Dialer:           s.Dialer(),
		PauseTimeout:     o.PauseTimeout,
		ReconnectWaitMin: o.RWMin,
		ReconnectWaitMax: o.RWMax,
		AtLeastOnceMax:   o.ALOMax,
		ExactlyOnceMax:   o.EOMax,
		CleanSession:     o.Clean,
		KeepAlive:        o.KeepAlive,
	}
	f.Cfg = cfg
	return &f.Cfg
}

// L is the simulated-time bound of the quiescence phase.
func (f *Flow) L() time.Duration {
	rw := f.O.RWMax
	if rw < time.Second {
		rw = time.Second // defaults applied by the client: min 1 s, max >= min
	}
	if f.O.RWMax == 0 {
		rw = time.Minute
		if f.O.RWMin > 0 && f.O.RWMin < time.Minute {
			rw = time.Minute
		}
	}
	return 40*(f.O.PauseTimeout+rw) + 60*time.Second
}

func payloadFor(t *Tape, marker string, bigPermille int, thorough bool) []byte {
	n := t.Draw("plen", 24)
	if t.Flip("pbig", bigPermille) {
		n = 1024 + t.Draw("plenbig", 4096)
	}
	b := make([]byte, 0, len(marker)+1+n)
	b = append(b, marker...)
	b = append(b, '|')
	for i := 0; i < n; i++ {
		b = append(b, byte('a'+i%26))
	}
	return b
}

// Recv is one return of ReadSlices that carried a message (or a BigMessage).
type Recv struct {
	Idx        int
	Step       int // return step
	Gen        int
	Conn       int // connection current at the return
	Topic      string
	Msg        []byte
	Big        bool
	BigSize    int
	BigRead    bool
	BigErr     error
	NextInvoke int // step at which ReadSlices was invoked again (ownership taken); 0: not yet
	Out        *OutMsg
	AckWire    int // step at which the PUBACK/PUBREC for this return was written (0: not yet)
}

// BackoffRec is one wait on a ReadBackoff channel.
type BackoffRec struct {
	Err    error
	NilCh  bool
	Wait   time.Duration
	Sched  time.Duration // part of Wait the scheduler added by tick actions
	Step   int
	Online bool // the client was online when the error was returned
}

func (f *Flow) readerTask(s *Sim) {
	w := f.W
	zombieCalls := 0
	var last *Recv
	for {
		s.Pause("before-ReadSlices")
		if last != nil {
			last.NextInvoke = w.Steps
			last = nil
		}
		f.RSInvokes++
		f.readerIdleAfterFailedAttempt = false
		for _, m := range f.Mon {
			if c18, ok := m.(*monC18); ok {
				c18.readerInvokes(f)
			}
		}
		onAtInvoke, _, knownAtInvoke := f.C.VerifSignals()
		onlinesAtInvoke := len(f.OnlineSteps)
		f.ReaderIn = "ReadSlices"
		msg, topic, err := f.C.ReadSlices()
		f.ReaderIn = ""
		f.RSReturns++
		f.LastRSReturn = w.Steps
		if err == nil {
			r := &Recv{Idx: len(f.Recvs), Step: w.Steps, Gen: w.Gen, Conn: -1, Topic: string(topic), Msg: append([]byte{}, msg...)}
			if c := s.Cur(); c != nil {
				r.Conn = c.id
			}
			r.Out = f.outByTopic(r.Topic)
			f.Recvs = append(f.Recvs, r)
			last = r
			w.Ev("recv", r.Idx, "ReadSlices -> %q +%dB", trunc(r.Topic, 24), len(r.Msg))
			for _, m := range f.Mon {
				m.Recv(f, r)
			}
			continue
		}
		var big *mqtt.BigMessage
		if errors.As(err, &big) {
			r := &Recv{Idx: len(f.Recvs), Step: w.Steps, Gen: w.Gen, Conn: -1, Topic: big.Topic, Big: true, BigSize: big.Size}
			if c := s.Cur(); c != nil {
				r.Conn = c.id
			}
			if !s.dead && w.Tape.Flip("bigread", 600) {
				s.Pause("before-ReadAll")
				r.BigRead = true
				f.ReaderIn = "ReadAll"
				r.Msg, r.BigErr = big.ReadAll()
				f.ReaderIn = ""
			}
			r.Out = f.outByTopic(r.Topic)
			f.Recvs = append(f.Recvs, r)
			last = r
			w.Ev("recv", r.Idx, "ReadSlices -> BigMessage %q size=%d read=%v err=%v", trunc(r.Topic, 24), r.BigSize, r.BigRead, r.BigErr)
			for _, m := range f.Mon {
				m.Recv(f, r)
			}
			if s.dead {
				zombieCalls++
				if zombieCalls > 20 {
					return
				}
			}
			continue
		}
		f.ReaderErrs = append(f.ReaderErrs, err)
		f.ReaderErrSteps = append(f.ReaderErrSteps, f.W.Steps)
		f.W.Ev("reader", 0, "ReadSlices: %v", err)
		// offline when invoked: the call was a connect attempt, and it failed
		// (and never came online during the call)
		f.readerIdleAfterFailedAttempt = knownAtInvoke && !onAtInvoke && len(f.OnlineSteps) == onlinesAtInvoke && !errors.Is(err, mqtt.ErrClosed) && !s.dead
		if f.readerIdleAfterFailedAttempt {
			f.failedAttemptStep, f.failedAttemptTime = w.Steps, s.Now()
			for _, r := range f.ActiveReqs {
				r.relAtFail = s.Releases[r.Task]
			}
		}
		if errors.Is(err, mqtt.ErrClosed) {
			f.ReaderClosed = true
			return
		}
		if s.dead {
			zombieCalls++
			if zombieCalls > 20 {
				return
			}
			continue
		}
		if f.O.Backoff {
			on, _, known := f.C.VerifSignals()
			ch := f.C.ReadBackoff(err)
			rec := BackoffRec{Err: err, NilCh: ch == nil, Step: w.Steps, Online: on && known}
			if ch != nil {
				t0, k0 := s.Now(), s.TickTime
				<-ch
				// time the scheduler let pass on its own account (tick
				// actions while goroutines were runnable) is scheduling
				// latency, not backoff
				rec.Wait = s.Now() - t0
				rec.Sched = s.TickTime - k0
			}
			if !s.dead {
				f.Backoffs = append(f.Backoffs, rec)
			}
		}
	}
}

func (f *Flow) outByTopic(topic string) *OutMsg {
	if sess := f.W.Broker.Sessions[f.O.ClientID]; sess != nil {
		for i := len(sess.Out) - 1; i >= 0; i-- {
			if sess.Out[i].Topic == topic {
				return sess.Out[i]
			}
		}
	}
	return nil
}

func trunc(s string, n int) string {
	if len(s) > n {
		return s[:n] + "…"
	}
	return s
}

func (f *Flow) pubTask(s *Sim, name string, n int) {
	w := f.W
	defer func() { f.pubTasksLive-- }()
	retries := 0
	for i := 0; i < n; i++ {
		s.Pause("pub")
		if s.dead {
			return
		}
		if f.O.InvalidArg > 0 && w.Tape.Flip("badpub", f.O.InvalidArg) {
			// a denied request in the middle of concurrent traffic: it
			// leaves no trace (C09), also not in what the others send
			bad := []string{"bad\x00topic", "", "bad\xc3"}[w.Tape.Draw("badkind", 3)]
			var err error
			switch w.Tape.Draw("badlevel", 3) {
			case 0:
				_, err = f.C.PublishAtLeastOnce([]byte("denied"), bad)
			case 1:
				_, err = f.C.PublishExactlyOnce([]byte("denied"), bad)
			default:
				err = f.C.Publish(nil, []byte("denied"), bad)
			}
			if !s.dead && (err == nil || !mqtt.IsDeny(err)) && !errors.Is(err, mqtt.ErrClosed) {
				w.Violate("C09", "invalid-accepted", "concurrent", "a publish to the invalid topic %q returned %v, want an IsDeny error", bad, err)
			}
			w.Probe("denied_among_concurrent_requests")
		}
		topic := fmt.Sprintf("t/%s/%d/g%d", name, i, w.Gen)
		if retries > 0 {
			// (no topic may be a substring of another: wire logs are searched for them)
			topic = fmt.Sprintf("t/%s/r%d/%d/g%d", name, retries, i, w.Gen)
		}
		pb := &Pub{Idx: len(f.Pubs), Task: name, Topic: topic, Gen: w.Gen}
		pb.QoS = 1
		if w.Tape.Flip("q2", f.O.Q2) {
			pb.QoS = 2
		}
		pb.Retain = w.Tape.Flip("retain", f.O.Retain)
		pb.Payload = payloadFor(w.Tape, topic, f.O.BigPayload, false)
		f.Pubs = append(f.Pubs, pb)
		f.Active = append(f.Active, pb)
		f.byTopic[topic] = pb
		pb.Invoke = w.Steps
		pb.InvTime = s.Now()
		deadAtInvoke := s.dead
		w.Ev("api", pb.Idx, "%s publish q%d %s", name, pb.QoS, topic)
		var ex <-chan error
		var err error
		on, _, known := f.C.VerifSignals()
		parks0 := s.netParks[name]
		switch {
		case pb.QoS == 1 && !pb.Retain:
			ex, err = f.C.PublishAtLeastOnce(pb.Payload, topic)
		case pb.QoS == 1:
			ex, err = f.C.PublishAtLeastOnceRetained(pb.Payload, topic)
		case !pb.Retain:
			ex, err = f.C.PublishExactlyOnce(pb.Payload, topic)
		default:
			ex, err = f.C.PublishExactlyOnceRetained(pb.Payload, topic)
		}
		if s.dead && !deadAtInvoke {
			// the call came back only because the incarnation was
			// unwound: as far as the run goes it never returned
			pb.Zombie = true
			return
		}
		pb.Ex, pb.Err = ex, err
		pb.Ret = w.Steps
		pb.RetTime = s.Now()
		pb.OnlineAtRet = on && known
		pb.NetParks = s.netParks[name] - parks0
		pb.Zombie = s.dead
		w.Ev("api", pb.Idx, "%s publish #%d -> %v", name, pb.Idx, err)
		if f.RetryErrMax && errors.Is(err, mqtt.ErrMax) {
			// wait for capacity (at most a bounded number of steps)
			for k := 0; k < 200 && !s.dead && f.inflight(pb.QoS) >= effMax(map[byte]int{1: f.O.ALOMax, 2: f.O.EOMax}[pb.QoS]); k++ {
				s.Pause("await-capacity")
			}
			i--
			retries++
			continue
		}
		if pb.ID != 0 && seqOf(pb.ID) == 0 && pb.Idx > 100 {
			w.Probe("identifier_wrapped")
		}
		if err != nil && !s.dead && !errors.Is(err, mqtt.ErrMax) && !errors.Is(err, ErrDiskInjected) && !errors.Is(err, mqtt.ErrClosed) {
			w.Violate("C14", "publish-error-class", "persisted", "persisted publish returned %v", err)
		}
		if err != nil && !s.dead && pb.SavedAny {
			// "a persisted publish that returns an error was not enqueued":
			// nor may its packet sit in the Persistence, where the next
			// AdoptSession would take it for accepted
			w.Violate("C14", "rejected-but-saved", errClass(err), "persisted publish #%d (%s) returned %q but its PUBLISH was stored under key %#04x at step %d", pb.Idx, pb.Topic, shortErr(err), pb.ID, pb.SaveStep)
		}
	}
}

// compactActive retires publishes that have been done in every respect for a
// while (long runs: the per-step monitors must not rescan thousands of
// finished transfers).
func (f *Flow) compactActive() {
	if len(f.ActiveReqs) >= 64 {
		st := f.W.Steps
		k := 0
		for _, r := range f.ActiveReqs {
			if (r.Ret != 0 && st-r.Ret > 3000) || r.Dead {
				continue
			}
			f.ActiveReqs[k] = r
			k++
		}
		f.ActiveReqs = f.ActiveReqs[:k]
	}
	if len(f.Active) < 64 {
		return
	}
	st := f.W.Steps
	k := 0
	for _, pb := range f.Active {
		done := pb.Ret != 0 && (!pb.Accepted() || (pb.ExClosed && pb.Deleted))
		if done && pb.settled == 0 {
			pb.settled = st
		}
		if done && st-pb.settled > 3000 {
			continue
		}
		f.Active[k] = pb
		k++
	}
	f.Active = f.Active[:k]
}

func (f *Flow) inflight(qos byte) int {
	n := 0
	for i := len(f.Pubs) - 1; i >= 0 && i > len(f.Pubs)-200; i-- {
		pb := f.Pubs[i]
		if pb.QoS == qos && pb.Accepted() && !pb.ExClosed {
			n++
		}
	}
	return n
}

// pollExchanges drains exchange channels without blocking.
func (f *Flow) pollExchanges() {
	if f.O.LazyExchanges && f.ClosedAt == 0 && !f.ReaderClosed {
		// this application reads its exchange channels only at the end
		return
	}
	if f.O.LazyExchanges && !f.ReaderClosed {
		return
	}
	for _, pb := range f.Active {
		if pb.Ex == nil || pb.ExClosed {
			continue
		}
	drain:
		for {
			select {
			case e, ok := <-pb.Ex:
				if !ok {
					pb.ExClosed = true
					pb.ExStep = f.W.Steps
					if f.O.Volatile {
						pb.Deleted, pb.DelStep = true, f.W.Steps+1 // the in-memory store is not observed
					}
					f.W.Ev("exchange", pb.Idx, "#%d closed", pb.Idx)
					break drain
				}
				pb.ExErrs = append(pb.ExErrs, e)
				f.W.Ev("exchange", pb.Idx, "#%d error %v", pb.Idx, e)
			default:
				break drain
			}
		}
	}
}

// HandedRef is a broker packet the client has read completely.
type HandedRef struct {
	C        *Conn
	Idx      int // index in C.Sent
	SentStep int
	HandStep int
}

// OnHanded indexes broker packets by type and identifier as the client reads
// them.
func (f *Flow) OnHanded(c *Conn, idx int) {
	sp := &c.Sent[idx]
	key := uint32(sp.Type)<<16 | uint32(sp.ID)
	f.handed[key] = append(f.handed[key], HandedRef{C: c, Idx: idx, SentStep: sp.Step, HandStep: c.HandStep[idx]})
	if sp.Type == PINGRESP {
		// reach: a pong (of an abandoned ping) arrives while the only
		// running Ping has not submitted its request yet
		for _, r := range f.ActiveReqs {
			if r.Kind == rkPing && r.Invoke != 0 && r.Ret == 0 && r.pingWires == len(f.PingReqWire) {
				f.W.Probe("pong_meets_unsubmitted_ping")
				if r.pongMet == 0 {
					r.pongMet = f.W.Steps
				}
			}
		}
	}
}

// HandedAcks lists the broker packets of a type and identifier handed over.
func (f *Flow) HandedAcks(typ byte, id uint16) []HandedRef {
	return f.handed[uint32(typ)<<16|uint32(id)]
}

// finalAckHanded reports whether the broker's final acknowledgement for pb was
// completely read by the client.
func (f *Flow) finalAckHanded(pb *Pub) bool {
	want := byte(PUBACK)
	if pb.QoS == 2 {
		want = PUBCOMP
	}
	return f.ackHanded(want, pb.ID, pb.Invoke)
}

func (f *Flow) ackHanded(typ byte, id uint16, since int) bool {
	for _, h := range f.HandedAcks(typ, id) {
		if h.SentStep >= since {
			return true
		}
	}
	return false
}

// recentConns are the connections whose state can still change.
func (f *Flow) recentConns() []*Conn {
	all := f.W.AllConns
	if len(all) > 4 {
		return all[len(all)-4:]
	}
	return all
}

func (f *Flow) stepHook() {
	w := f.W
	s := f.S
	// input on connections that no longer work either reaches the broker
	// or is lost
	for _, c := range f.recentConns() {
		if (c.closedLocal || c.Broken != 0) && w.Broker.Pending(c) {
			if w.Tape.Flip("lose", 400) {
				w.Faults["unread_input_lost"]++
				w.Broker.Drop(c)
			} else {
				w.Broker.Consume(c)
			}
		}
	}
	f.pollExchanges()
	if f.C != nil {
		on, off, known := f.C.VerifSignals()
		f.sigKnown = known
		if known {
			if on && off {
				w.Violate("C12", "signals", "both-released", "Online and Offline both released")
			}
			if on && !f.lastOnline {
				if c := s.Cur(); c != nil {
					f.OnlineConn = c.id
					f.OnlineSteps = append(f.OnlineSteps, w.Steps)
					w.Ev("online", c.id, "Online observed on conn%d", c.id)
					for _, m := range f.Mon {
						m.Online(f, c)
					}
				}
			}
			f.lastOnline = on
		}
	}
	for _, m := range f.Mon {
		m.Step(f)
	}
	f.compactActive()
	if f.C != nil && f.pubTasksLive == 0 && f.reqTasksLive == 0 && f.InSent >= f.O.Inbound && f.QStartStep == 0 && f.issuedStep == 0 {
		f.issuedStep = w.Steps
	}
	// faults go on for a drawn number of steps after the workload was issued:
	// the tail of the work (acknowledgements, record removal, what the broker
	// sent last) is otherwise never met by a fault
	if f.C != nil && f.issuedStep != 0 && w.Steps-f.issuedStep >= f.O.Linger && f.pubTasksLive == 0 && f.reqTasksLive == 0 && f.InSent >= f.O.Inbound && f.QStartStep == 0 && f.quiesceReady() {
		f.QStartStep = w.Steps
		f.QStartTime = s.Now()
		f.QStartTick = s.TickTime
		f.FaultSteps = w.Steps
		w.FaultsOff = true
		// the per-run step cap belongs to the fault phase; the
		// quiescence phase has its own allowance S (checked in done)
		w.MaxSteps = w.Steps + f.stepAllowance() + 1000
		w.Ev("phase", 0, "quiescence phase begins")
	}
}

func (f *Flow) quiesceReady() bool { return true }

// stalledInFaultPhase covers the caller that never returns: the workload is
// not fully issued as long as a task sits in a call, so the quiescence phase
// never begins. When the world has come to rest all the same (nothing enabled,
// not even for the environment, no timer pending for an hour of simulated
// time) while the environment withholds nothing, no later event can change
// anything: the liveness oracles judge that state as the end of a quiescence
// phase.
func (f *Flow) stalledInFaultPhase() {
	w := f.W
	s := f.S
	if !s.Stuck || f.QStartStep != 0 || f.C == nil || f.FatalSetup != nil || w.Gen < f.O.Generations ||
		f.O.Closers > 0 || f.O.LazyExchanges || len(w.Broker.Held) > 0 || w.Broker.Hold != nil {
		return
	}
	for _, c := range f.recentConns() {
		if c.Gen == w.Gen && (c.Hostile != nil || c.Stalled || (c.Silent && c.Alive())) {
			return
		}
	}
	f.QStartStep = w.Steps
	f.QStartTime = s.Now()
	f.QStartTick = s.TickTime
	f.FaultSteps = w.Steps
	f.StalledEarly = true
	w.Probe("stalled_with_call_outstanding")
	w.Ev("phase", 0, "the world came to rest in the fault phase with calls outstanding and a conforming environment: judged as the end of a quiescence phase")
}

func (f *Flow) env() []Action {
	w := f.W
	s := f.S
	var acts []Action
	for _, c := range f.recentConns() {
		c := c
		if c.Alive() && !c.Silent && w.Broker.Pending(c) {
			acts = append(acts, Action{Name: "broker-recv", Weight: 30, Run: func() { w.Broker.Consume(c) }})
		}
	}
	if c := s.Cur(); c != nil && c.Alive() && w.FaultOK() && f.O.BreakW > 0 {
		acts = append(acts, Action{Name: "break", Weight: f.O.BreakW, Run: func() {
			kind := 1 + w.Tape.Pick("breakkind", []int{4, 4, f.O.HalfCloseW})
			w.Fault(fmt.Sprintf("break_kind%d", kind))
			if w.Broker.Pending(c) && !w.Tape.Flip("lose", 400) {
				w.Broker.Consume(c)
			}
			c.Break(kind)
		}})
	}
	if c := s.Cur(); c != nil && c.Alive() && !c.Silent && c.ConnackStep != 0 && c.Hostile == nil && w.FaultOK() && f.O.PartW > 0 {
		acts = append(acts, Action{Name: "partition", Weight: f.O.PartW, Run: func() {
			w.Fault("partition")
			c.Silent = true
			c.WriteBlocked = w.Tape.Flip("part-wblock", 400) // the send buffer is full, too
			c.SilentStep = w.Steps
			c.SilentLimit = c.rdCur + w.Tape.Draw("partcut", c.avail()+1)
			if c.CutInsidePacket() {
				w.Probe("partition_inside_packet")
			}
			w.Ev("net", c.id, "conn%d goes silent: %d of %d queued bytes still arrive (inside a packet: %v)", c.id, c.SilentLimit-c.rdCur, len(c.B2C)-c.rdCur, c.CutInsidePacket())
		}})
	}
	if c := s.Cur(); c != nil && c.Alive() && c.Silent {
		// the partition ends with a reset. Once faults have stopped that
		// is withheld from a client which has the means to notice the
		// silence by itself: a packet cut in two and a PauseTimeout.
		selfHelp := c.CutInsidePacket() && f.O.PauseTimeout != 0
		if !(w.FaultsOff && selfHelp) {
			acts = append(acts, Action{Name: "partition-heal", Weight: 1 + 4*b2i(w.FaultsOff), Run: func() {
				w.Trouble()
				w.Ev("net", c.id, "conn%d: the partition ends with a reset", c.id)
				c.Break(2)
			}})
		}
	}
	if c := s.Cur(); c != nil && c.Broken == 3 && !c.closedLocal {
		// the half-closed peer resets eventually (a fault like any other,
		// from the budget). Without budget that is withheld once the read
		// routine has been handed the end of the stream.
		// (the reader was handed the end of the stream: from then on the
		// client knows and has to clean up by itself)
		readerBlocked := !c.EOFSeen
		if w.FaultOK() || readerBlocked {
			acts = append(acts, Action{Name: "peer-reset", Weight: 1 + 4*b2i(w.FaultsOff), Run: func() {
				w.Ev("net", c.id, "conn%d: the half-closed peer resets", c.id)
				c.Break(2)
			}})
		}
	}
	acts = append(acts, f.quitActions()...)
	acts = append(acts, f.closerActions()...)
	acts = append(acts, f.hostileActions()...)
	if f.O.StopW > 0 && w.Gen < f.O.Generations && f.C != nil && w.StopParam < 0 && w.Steps-f.genStartStep >= f.O.StopFrom {
		acts = append(acts, Action{Name: "stop", Weight: f.O.StopW, Run: func() {
			w.Faults["stop_anywhere"]++
			w.Ev("stop", 0, "process stops")
			// storage operations in progress may or may not have reached the medium
			for _, p := range s.parked {
				if op, ok := p.op.(*diskOp); ok && (op.kind == 'S' || op.kind == 'D') && w.Tape.Flip("stop-applied", 300) {
					w.Disk.applyInterrupted(op, p.g)
				}
			}
			s.stop()
		}})
	}
	// the broker has messages for the client once its session exists (in
	// strict runs only while connected: a clean session would drop them)
	sessOK := !f.StrictInbound
	if c := s.Cur(); c != nil && w.Broker.SessionOf(c) != nil {
		sessOK = true
	}
	if f.O.InWindow > 0 && sessOK {
		open := 0
		if sess := w.Broker.Sessions[f.O.ClientID]; sess != nil {
			for _, m := range sess.Out {
				if m.QoS > 0 && m.Stage != 3 {
					open++
				}
			}
		}
		if open >= f.O.InWindow {
			sessOK = false
		}
	}
	if f.InSent < f.O.Inbound && f.C != nil && sessOK {
		acts = append(acts, Action{Name: "broker-publish", Weight: 6, Run: f.brokerPublish})
	}
	return acts
}

// brokerPublish makes the broker send the next application message.
func (f *Flow) brokerPublish() {
	w := f.W
	n := f.InSent
	f.InSent++
	qos := byte(w.Tape.Pick("inq", f.O.InQ[:]))
	topic := fmt.Sprintf("in/%d", n)
	if w.Tape.Flip("intopiclong", f.O.LongTopic) {
		max := f.O.ReadBuf - 12
		if max > 65535 {
			max = 65535
		}
		if max > 300 && !w.Tape.Flip("intopichuge", 100) {
			max = 300
		}
		tl := 1 + w.Tape.Draw("intopiclen", max)
		if n := (tl - len(topic)) / 2; n > 0 {
			// never beyond tl: 65,535 bytes is the longest string MQTT can
			// carry (and not a += loop: that is quadratic in allocation)
			topic += strings.Repeat("/x", n)
		}
	}
	size := w.Tape.Draw("insize", 24)
	rb := f.O.ReadBuf
	switch w.Tape.Pick("insizeclass", f.O.InSizeMix[:]) {
	case 1: // around the read buffer
		size = rb - 8 - len(topic) + w.Tape.Draw("inaround", 17)
	case 2: // several buffers
		size = rb + w.Tape.Draw("inmulti", 2*rb+1)
	case 3:
		size = 0
	}
	if size < 0 {
		size = 0
	}
	if size > 300*1024 {
		size = 300 * 1024
	}
	payload := make([]byte, size)
	for i := range payload {
		payload[i] = byte('A' + (i+n)%53)
	}
	copy(payload, topic)
	m := w.Broker.Publish(f.O.ClientID, qos, w.Tape.Flip("inretain", 100), topic, payload)
	w.Ev("bpub", n, "broker publishes q%d %q +%dB id=%#04x", qos, trunc(topic, 24), size, m.ID)
	if c := f.S.Cur(); c != nil && c.Alive() {
		w.Broker.Flush(c)
	}
}

func (f *Flow) wireInGen(pb *Pub, gen int) bool {
	for _, id := range pb.WireConns {
		if f.W.AllConns[id].Gen == gen {
			return true
		}
	}
	return false
}

// AdoptedGen is whether the incarnation came from AdoptSession.
func (f *Flow) AdoptedGen(gen int) bool { return f.adopted[gen] }

// goalReached: every accepted publish is done in every respect.
func (f *Flow) goalReached() bool {
	if f.InSent < f.O.Inbound {
		return false
	}
	if c := f.S.Cur(); c != nil && c.Silent && c.Alive() {
		return false // the silent connection is still the client's
	}
	for _, h := range f.Hostiles {
		// what the client has read of a hostile stream it must also get
		// to act upon before the run may end
		if c := h.C; c.Gen == f.W.Gen && (h.Definite || h.Stall) && c.rdCur >= h.End && !c.ClosedLive && c.Broken == 0 {
			return false
		}
	}
	if f.StrictInbound && len(f.Recvs) < f.InSent && len(f.ReaderErrs) == 0 {
		return false
	}
	if sess := f.W.Broker.Sessions[f.O.ClientID]; sess != nil && f.O.Inbound > 0 {
		for _, m := range sess.Out {
			if m.Stage != 3 {
				return false
			}
		}
		// everything the broker sent has been read
		if c := f.S.Cur(); c != nil && c.Alive() && c.avail() > 0 {
			return false
		}
	}
	for _, r := range f.ActiveReqs {
		if r.Invoke != 0 && r.Ret == 0 && !r.Dead {
			return false
		}
	}
	for _, pb := range f.Pubs {
		if pb.Gen != f.W.Gen {
			// accepted by an earlier incarnation: done when its record
			// is gone again
			if pb.Resumed && !pb.Deleted {
				if (f.DamagedGen[f.W.Gen] || f.LeftoverGen[f.W.Gen]) && !f.wireInGen(pb, f.W.Gen) {
					// abandoned by AdoptSession because of the damage
					continue
				}
				return false
			}
			continue
		}
		if pb.Ret == 0 {
			return false
		}
		if !pb.Accepted() {
			continue
		}
		if !pb.ExClosed || !pb.Deleted {
			return false
		}
	}
	return true
}

func (f *Flow) done() bool {
	if f.FatalSetup != nil {
		return true
	}
	if f.O.Closers > 0 {
		if f.c12Done() {
			f.census()
			return true
		}
		if f.ClosedAt != 0 && (f.W.Steps-f.ClosedAt > 200000 || f.S.Now()-f.ClosedTime > f.L()) {
			return true
		}
		if len(f.Closers) > 0 && f.ClosedAt == 0 && f.W.Steps-f.Closers[0].Invoke > 200000 && f.Closers[0].Invoke != 0 {
			return true
		}
		if f.QStartStep == 0 || len(f.Closers) > 0 {
			return false
		}
	}
	if f.QStartStep == 0 {
		return false
	}
	if f.O.StopWhenPublished && f.W.Gen < f.O.Generations {
		// let what is under way settle, then stop at rest
		if f.W.Steps-f.QStartStep > 60 {
			f.S.stop()
			return true
		}
		return false
	}
	if f.goalReached() {
		if f.W.Gen < f.O.Generations {
			f.S.stop() // a stop at rest
		}
		return true
	}
	w := f.W
	// (time the scheduler itself let pass by tick actions while the client had
	// work to do is scheduling latency, not the client's: it counts for a
	// fifth only. Not counting it at all would leave a client that loops
	// without ever waiting to the step allowance S alone, 200,000 steps
	// and more per run.)
	if f.S.Now()-f.QStartTime-(f.S.TickTime-f.QStartTick)*4/5 > f.L() {
		return true
	}
	if w.Steps-f.QStartStep > f.stepAllowance() {
		return true
	}
	return false
}

// stepAllowance is S: the number of scheduler steps the quiescence phase may
// take. Legitimate recovery needs a few hundred steps plus polling loops that
// consume simulated time; a loop that burns steps while time stands still
// exhausts it.
func (f *Flow) stepAllowance() int { return 50*f.FaultSteps + 200000 }

// errClass names the documented class of an API error, or "" when it is in
// none.
func errClass(err error) string {
	switch {
	case err == nil:
		return "nil"
	case errors.Is(err, mqtt.ErrClosed):
		return "ErrClosed"
	case errors.Is(err, mqtt.ErrDown):
		return "ErrDown"
	case errors.Is(err, mqtt.ErrMax):
		return "ErrMax"
	case errors.Is(err, mqtt.ErrCanceled):
		return "ErrCanceled"
	case errors.Is(err, mqtt.ErrAbandoned):
		return "ErrAbandoned"
	case errors.Is(err, mqtt.ErrSubmit):
		return "ErrSubmit"
	case errors.Is(err, mqtt.ErrBreak):
		return "ErrBreak"
	case mqtt.IsDeny(err):
		return "IsDeny"
	}
	var se mqtt.SubscribeError
	if errors.As(err, &se) {
		return "SubscribeError"
	}
	return ""
}

func shortErr(err error) string {
	if err == nil {
		return "nil"
	}
	s := err.Error()
	s = strings.ReplaceAll(s, "\n", "; ")
	if len(s) > 80 {
		s = s[:80]
	}
	return s
}

// ---- requests other than persisted publishes ----

const (
	rkPublish = iota // at-most-once
	rkPublishRetained
	rkSubscribe
	rkSubscribeAtMostOnce
	rkSubscribeAtLeastOnce
	rkUnsubscribe
	rkPing
	rkKinds
)

var rkNames = [...]string{"Publish", "PublishRetained", "Subscribe", "SubscribeLimitAtMostOnce", "SubscribeLimitAtLeastOnce", "Unsubscribe", "Ping"}

const (
	quitNil = iota
	quitOpen
	quitClosed // closed before the call
	quitLater  // closed by the environment at some later step
)

type Req struct {
	Idx     int
	Task    string
	Kind    int
	Topic   string   // publish
	Payload []byte   // publish
	Filters []string // (un)subscribe
	QuitK   int
	Quit    chan struct{}
	QuitAt  int // step at which quit was closed (0: not)
	Invoke  int
	Ret     int
	RetTime time.Duration
	InvTime time.Duration
	Err     error
	// wire
	ID                 uint16
	WireStep           int // step of the complete request packet (0: never complete)
	WireConn           int
	Panic              string
	OnlineInv          bool
	relAtInvoke        int  // releases of the task at invocation
	AfterFailedAttempt bool // invoked while the reader idled after a failed connect attempt
	Dead               bool // its process stopped before the call returned
	pingWires          int  // PINGREQ packets on the wire when the call started
	relAtQuit          int  // releases of the task when its quit was closed
	quitFlagged        bool
	attemptFlagged     bool
	relAtFail          int // releases of the task when the last connect attempt failed
	quitTime           time.Duration
	pongMet            int // step at which a PINGRESP was handed over while this Ping had not submitted
}

func (r *Req) Returned() bool { return r.Ret != 0 }

//lint:ignore U1000 reach probe bookkeeping
type reqProbe struct{}

func (f *Flow) reqTask(s *Sim, name string, n int) {
	w := f.W
	defer func() { f.reqTasksLive-- }()
	for i := 0; i < n; i++ {
		s.Pause("req")
		if s.dead {
			return
		}
		r := &Req{Idx: len(f.Reqs), Task: name, WireConn: -1}
		r.Kind = w.Tape.Pick("rkind", f.O.ReqMix[:])
		marker := fmt.Sprintf("r/%s/%d/g%d", name, i, w.Gen)
		switch r.Kind {
		case rkPublish, rkPublishRetained:
			r.Topic = marker
			r.Payload = payloadFor(w.Tape, marker, f.O.BigPayload, false)
		case rkSubscribe, rkSubscribeAtMostOnce, rkSubscribeAtLeastOnce, rkUnsubscribe:
			nf := 1 + w.Tape.Draw("nfilt", 3)
			for k := 0; k < nf; k++ {
				flt := fmt.Sprintf("%s/%d", marker, k)
				if r.Kind != rkUnsubscribe && w.Tape.Flip("failfilt", f.O.FailFilter) {
					flt += "/fail"
				}
				r.Filters = append(r.Filters, flt)
			}
		}
		r.QuitK = w.Tape.Pick("quitk", f.O.QuitMix[:])
		switch r.QuitK {
		case quitOpen, quitLater:
			r.Quit = make(chan struct{})
		case quitClosed:
			r.Quit = make(chan struct{})
			close(r.Quit)
			r.QuitAt = w.Steps
		}
		f.issue(s, name, r)
	}
}

// issue records the request in the ledger, performs the call and records its
// result.
func (f *Flow) issue(s *Sim, name string, r *Req) {
	w := f.W
	f.Reqs = append(f.Reqs, r)
	f.ActiveReqs = append(f.ActiveReqs, r)
	for _, flt := range r.Filters {
		f.reqByMarker[flt] = r
	}
	if r.Topic != "" {
		f.reqByMarker[r.Topic] = r
	}
	r.Invoke = w.Steps
	r.InvTime = s.Now()
	pingWires := len(f.PingReqWire)
	r.pingWires = pingWires
	on, _, known := f.C.VerifSignals()
	r.OnlineInv = on && known
	r.relAtInvoke = s.Releases[name]
	r.AfterFailedAttempt = f.readerIdleAfterFailedAttempt && known && !on
	w.Ev("api", r.Idx, "%s %s #%d quit=%d", name, rkNames[r.Kind], r.Idx, r.QuitK)
	func() {
		defer func() {
			if p := recover(); p != nil {
				r.Panic = fmt.Sprint(p)
				w.Violate("C13", "no-panic", "api-"+rkNames[r.Kind], "%s panicked: %v", rkNames[r.Kind], p)
			}
		}()
		var quit <-chan struct{}
		if r.Quit != nil {
			quit = r.Quit
		}
		switch r.Kind {
		case rkPublish:
			r.Err = f.C.Publish(quit, r.Payload, r.Topic)
		case rkPublishRetained:
			r.Err = f.C.PublishRetained(quit, r.Payload, r.Topic)
		case rkSubscribe:
			r.Err = f.C.Subscribe(quit, r.Filters...)
		case rkSubscribeAtMostOnce:
			r.Err = f.C.SubscribeLimitAtMostOnce(quit, r.Filters...)
		case rkSubscribeAtLeastOnce:
			r.Err = f.C.SubscribeLimitAtLeastOnce(quit, r.Filters...)
		case rkUnsubscribe:
			r.Err = f.C.Unsubscribe(quit, r.Filters...)
		case rkPing:
			r.Err = f.C.Ping(quit)
		}
	}()
	if s.dead {
		// the call came back only because the incarnation was unwound
		// (Close releases whoever waits): as far as the run goes it never
		// returned
		return
	}
	r.Ret = w.Steps
	r.RetTime = s.Now()
	if r.Kind == rkPing && r.Err == nil {
		// success implies a complete packet (C08): a PINGREQ was
		// written completely while the call ran
		done := false
		for i := len(f.PingReqWire) - 1; i >= 0 && f.PingReqWire[i] >= r.Invoke; i-- {
			done = true
		}
		if !done {
			w.Violate("C08", "success-incomplete", "Ping", "Ping #%d returned nil at step %d but no PINGREQ was written completely since its invocation at step %d", r.Idx, w.Steps, r.Invoke)
		}
	}
	if r.Kind == rkPing && r.Err != nil && r.pongMet != 0 && !errors.Is(r.Err, mqtt.ErrMax) {
		w.Probe("ping_lost_callback_then_failed")
		for _, b := range f.ActiveReqs {
			if b != r && b.Kind == rkPing && b.Ret == 0 && b.Invoke > r.pongMet {
				w.Probe("ping_slot_handover_race")
			}
		}
	}
	w.Ev("api", r.Idx, "%s %s #%d -> %s", name, rkNames[r.Kind], r.Idx, shortErr(r.Err))
}

// idWindowTasks: one Subscribe is kept waiting (its SUBACK is held) while
// another task goes through the whole 13-bit identifier window of the
// (un)subscribe slots; then a second Subscribe, which the broker fails, and
// only then the first SUBACK. Each caller must get its own answer.
func (f *Flow) idWindowTasks(s *Sim) {
	w := f.W
	hold := true
	first := "win/first"
	w.Broker.Hold = func(c *Conn, p Packet) bool {
		if !hold || p.Type != SUBACK {
			return false
		}
		r := f.reqByMarker[first]
		return r != nil && r.ID == p.ID
	}
	f.reqTasksLive += 2
	s.Go("req-first", func() {
		defer func() { f.reqTasksLive-- }()
		s.Pause("req")
		f.issue(s, "req-first", &Req{Idx: len(f.Reqs), Task: "req-first", Kind: rkSubscribe, Filters: []string{first}, WireConn: -1})
	})
	s.Go("req-window", func() {
		defer func() { f.reqTasksLive-- }()
		// wait until the first SUBSCRIBE is on the wire
		for i := 0; i < 2000 && !s.dead; i++ {
			s.Pause("await-first")
			if r := f.reqByMarker[first]; r != nil && r.WireStep != 0 {
				break
			}
		}
		n := 8191 + w.Tape.Draw("window-extra", 3)
		for i := 0; i < n && !s.dead; i++ {
			s.Pause("req")
			f.issue(s, "req-window", &Req{Idx: len(f.Reqs), Task: "req-window", Kind: rkUnsubscribe, Filters: []string{fmt.Sprintf("win/churn/%d", i)}, WireConn: -1})
		}
		s.Pause("req")
		f.reqTasksLive++
		s.Go("req-second", func() {
			defer func() { f.reqTasksLive-- }()
			s.Pause("req")
			f.issue(s, "req-second", &Req{Idx: len(f.Reqs), Task: "req-second", Kind: rkSubscribe, Filters: []string{"win/second/fail"}, WireConn: -1})
		})
		// the second SUBSCRIBE goes out, its answer comes back, and only
		// then the answer to the first
		for i := 0; i < 4000 && !s.dead; i++ {
			s.Pause("await-second")
			if r := f.reqByMarker["win/second/fail"]; r != nil && r.Ret != 0 {
				break
			}
		}
		hold = false
		for len(w.Broker.Held) > 0 {
			w.Broker.Release(0)
		}
		w.Probe("identifier_window_wrapped")
	})
}

// reqWire links request packets on the wire to their ledger entries.
func (f *Flow) reqWire(c *Conn, p *WirePkt) {
	var r *Req
	switch p.Type {
	case PUBLISH:
		if p.QoS == 0 {
			r = f.reqByMarker[p.Topic]
		}
	case SUBSCRIBE, UNSUBSCRIBE:
		if len(p.Filters) > 0 {
			r = f.reqByMarker[p.Filters[0]]
		}
	case PINGREQ:
		f.PingReqWire = append(f.PingReqWire, f.W.Steps)
	}
	if r != nil && r.WireStep == 0 {
		r.WireStep = f.W.Steps
		r.WireConn = c.id
		r.ID = p.ID
	}
}

// quitActions lets the environment close quit channels of running requests.
func (f *Flow) quitActions() []Action {
	var acts []Action
	for _, r := range f.ActiveReqs {
		r := r
		if r.QuitK == quitLater && r.QuitAt == 0 && r.Ret == 0 && r.Invoke != 0 {
			acts = append(acts, Action{Name: "close-quit", Weight: 2, Run: func() {
				r.QuitAt = f.W.Steps
				r.relAtQuit = f.S.Releases[r.Task]
				r.quitTime = f.S.Now()
				close(r.Quit)
				f.W.Probe("quit_closed_during_request")
				f.W.Ev("quit", r.Idx, "quit of request #%d closed", r.Idx)
			}})
		}
	}
	return acts
}

func b2i(b bool) int {
	if b {
		return 1
	}
	return 0
}
