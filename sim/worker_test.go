package sim

import (
	"encoding/json"
	"fmt"
	"os"
	"runtime"
	"strconv"
	"testing"
	"time"
)

// TestWorker is the entry point of a worker process; the driver passes its
// instructions in the environment.
func TestWorker(t *testing.T) {
	mode := os.Getenv("VERIF_MODE")
	if mode == "" {
		t.Skip("not run by the driver")
	}
	runtime.GOMAXPROCS(1)
	switch mode {
	case "batch":
		var bs BatchSpec
		if err := json.Unmarshal([]byte(os.Getenv("VERIF_BATCH")), &bs); err != nil {
			fmt.Fprintln(os.Stderr, "bad VERIF_BATCH:", err)
			os.Exit(2)
		}
		res := RunBatch(t, bs)
		b, _ := json.Marshal(res)
		if err := os.WriteFile(bs.Out, b, 0o644); err != nil {
			fmt.Fprintln(os.Stderr, err)
			os.Exit(2)
		}
	case "replay":
		b, err := os.ReadFile(os.Getenv("VERIF_REPLAY"))
		if err != nil {
			fmt.Fprintln(os.Stderr, err)
			os.Exit(2)
		}
		var rf ReplayFile
		if err := json.Unmarshal(b, &rf); err != nil {
			fmt.Fprintln(os.Stderr, err)
			os.Exit(2)
		}
		spec := rf.Spec
		spec.Replay = !(rf.Crash && len(spec.Tape) == 0)
		spec.Verbose = true
		r := ExecRun(t, spec)
		for _, l := range r.Text {
			fmt.Println(l)
		}
		got := fmt.Sprintf("%016x", r.Hash)
		same := false
		for _, v := range r.Viol {
			if v.Key() == rf.Violation.Key() {
				same = true
				fmt.Printf("REPLAY-VIOLATION %s: %s\n", v.Key(), v.Detail)
			}
		}
		out := map[string]any{"hash": got, "want_hash": rf.Hash, "reproduced": same, "hash_match": got == rf.Hash}
		jb, _ := json.Marshal(out)
		fmt.Println("REPLAY-RESULT " + string(jb))
	case "single":
		seed, _ := strconv.ParseUint(os.Getenv("VERIF_SEED"), 10, 64)
		spec := RunSpec{Prop: os.Getenv("VERIF_PROP"), Fam: os.Getenv("VERIF_FAM"), Seed: seed, Verbose: os.Getenv("VERIF_VERBOSE") != ""}
		spec.Param, _ = strconv.Atoi(os.Getenv("VERIF_PARAM"))
		r := ExecRun(t, spec)
		for _, l := range r.Text {
			fmt.Println(l)
		}
		fmt.Printf("hash=%016x acthash=%016x steps=%d simtime=%v viol=%d inconcl=%q\n%s\n", r.Hash, r.ActHash, r.Steps, r.SimTime, len(r.Viol), r.Inconcl, r.Summary)
		for _, v := range r.Viol {
			fmt.Printf("VIOL %s: %s\n", v.Key(), v.Detail)
		}
		for _, v := range r.Notes {
			fmt.Printf("NOTE %s: %s\n", v.Key(), v.Detail)
		}
	case "minimise":
		// development aid: shrink the first violation of a seeded run and
		// re-execute the minimised tape several times
		seed, _ := strconv.ParseUint(os.Getenv("VERIF_SEED"), 10, 64)
		spec := RunSpec{Prop: os.Getenv("VERIF_PROP"), Fam: os.Getenv("VERIF_FAM"), Seed: seed}
		r := ExecRun(t, spec)
		if len(r.Viol) == 0 {
			fmt.Println("no violation")
			return
		}
		key := r.Viol[0].Key()
		min := Minimise(t, spec, r.Tape, key, time.Now().Add(20*time.Second))
		fmt.Printf("violation %s tape %d -> %d\n", key, len(r.Tape), len(min))
		for i := 0; i < 6; i++ {
			s := spec
			s.Replay, s.Tape, s.Verbose = true, min, i%2 == 1
			rr := ExecRun(t, s)
			fmt.Printf("rerun %d verbose=%v: hash=%016x steps=%d reproduced=%v\n", i, s.Verbose, rr.Hash, rr.Steps, hasViolation(&rr, key))
		}
	case "hashes":
		// determinism self-test: print the hash of a range of seeds
		n, _ := strconv.Atoi(os.Getenv("VERIF_N"))
		base, _ := strconv.ParseUint(os.Getenv("VERIF_SEED"), 10, 64)
		prop := os.Getenv("VERIF_PROP")
		for i := 0; i < n; i++ {
			fams := registry[prop]
			if only := os.Getenv("VERIF_FAM"); only != "" {
				var sel []Family
				for _, f := range fams {
					if f.Name == only {
						sel = append(sel, f)
					}
				}
				fams = sel
			}
			fam := fams[i%len(fams)]
			r := ExecRun(t, RunSpec{Prop: prop, Fam: fam.Name, Seed: mix64(base, uint64(i))})
			fmt.Printf("%s %s %d %016x %d %d", prop, fam.Name, i, r.Hash, r.Steps, len(r.Viol))
			if os.Getenv("VERIF_REPLAYCHECK") != "" {
				// replay fidelity: the recorded tape reproduces the run
				rs := RunSpec{Prop: prop, Fam: fam.Name, Seed: mix64(base, uint64(i)), Replay: true, Tape: r.Tape}
				rr := ExecRun(t, rs)
				if rr.Hash != r.Hash {
					fmt.Printf(" REPLAY-MISMATCH %016x", rr.Hash)
				}
			}
			if os.Getenv("VERIF_SHOWVIOL") != "" {
				for _, v := range r.Viol {
					fmt.Printf(" [%s seed=%d: %s]", v.Key(), mix64(base, uint64(i)), v.Detail)
				}
				if os.Getenv("VERIF_SHOWVIOL") == "2" {
					for _, v := range r.Notes {
						fmt.Printf(" [NOTE %s seed=%d: %s]", v.Key(), mix64(base, uint64(i)), v.Detail)
					}
				}
			}
			fmt.Println()
			if os.Getenv("VERIF_MEMLOG") == "2" {
				var ms runtime.MemStats
				runtime.ReadMemStats(&ms)
				fmt.Printf("MEM1 run=%d fam=%s steps=%d totalAllocMB=%d heapSys=%dMB\n", i, fam.Name, r.Steps, ms.TotalAlloc>>20, ms.HeapSys>>20)
			}
			if os.Getenv("VERIF_MEMLOG") != "" && i%50 == 49 {
				var ms runtime.MemStats
				runtime.ReadMemStats(&ms)
				fmt.Printf("MEM run=%d heapAlloc=%dMB heapSys=%dMB goroutines=%d numGC=%d\n", i, ms.HeapAlloc>>20, ms.HeapSys>>20, runtime.NumGoroutine(), ms.NumGC)
			}
		}
	}
}
