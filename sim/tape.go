package sim

// Tape is the single source of choice of a run. In generation mode values come
// from a PRNG seeded with the run seed and are recorded; in replay mode they
// are read back and missing values read as 0. By construction 0 is always the
// plainest option (first task in canonical order, whole read, whole write, no
// fault), so shrinking towards zero simplifies.
type Tape struct {
	Vals   []uint32 // effective values, in draw order
	Labels []string // labels, recorded only when KeepLabels
	src    []uint32 // replay source (nil in generation mode)
	replay bool
	rng    uint64

	KeepLabels bool
}

func NewTape(seed uint64) *Tape {
	t := &Tape{rng: seed*0x9e3779b97f4a7c15 + 0x1234567}
	// warm up
	for i := 0; i < 4; i++ {
		t.next()
	}
	return t
}

func ReplayTape(vals []uint32) *Tape {
	return &Tape{src: vals, replay: true}
}

// splitmix64
func (t *Tape) next() uint64 {
	t.rng += 0x9e3779b97f4a7c15
	z := t.rng
	z = (z ^ (z >> 30)) * 0xbf58476d1ce4e5b9
	z = (z ^ (z >> 27)) * 0x94d049bb133111eb
	return z ^ (z >> 31)
}

func (t *Tape) record(label string, v uint32) {
	t.Vals = append(t.Vals, v)
	if t.KeepLabels {
		t.Labels = append(t.Labels, label)
	}
}

// Draw returns a value in [0,n). n<=1 yields 0 without consuming the tape.
func (t *Tape) Draw(label string, n int) int {
	if n <= 1 {
		return 0
	}
	var v uint32
	if t.replay {
		i := len(t.Vals)
		if i < len(t.src) {
			v = t.src[i] % uint32(n)
		}
	} else {
		v = uint32(t.next() % uint64(n))
	}
	t.record(label, v)
	return int(v)
}

// Pick chooses an index with the given weights in generation mode; the tape
// stores the index itself. Weight 0 entries are never generated but a replay
// that names one is mapped to the next positive entry.
func (t *Tape) Pick(label string, weights []int) int {
	n := len(weights)
	if n == 0 {
		panic("Pick: no options")
	}
	var v uint32
	if t.replay {
		i := len(t.Vals)
		if i < len(t.src) {
			v = t.src[i] % uint32(n)
		}
		for k := 0; k < n && weights[v] <= 0; k++ {
			v = (v + 1) % uint32(n)
		}
	} else {
		total := 0
		for _, w := range weights {
			if w > 0 {
				total += w
			}
		}
		if total == 0 {
			panic("Pick: all weights zero")
		}
		r := int(t.next() % uint64(total))
		for i, w := range weights {
			if w <= 0 {
				continue
			}
			if r < w {
				v = uint32(i)
				break
			}
			r -= w
		}
	}
	if n > 1 {
		t.record(label, v)
	}
	return int(v)
}

// Flip is true with probability permille/1000 in generation mode. The tape
// stores 0 (false) or 1 (true).
func (t *Tape) Flip(label string, permille int) bool {
	if permille <= 0 {
		return false
	}
	var v uint32
	if t.replay {
		i := len(t.Vals)
		if i < len(t.src) && t.src[i] != 0 {
			v = 1
		}
	} else if int(t.next()%1000) < permille {
		v = 1
	}
	t.record(label, v)
	return v == 1
}

// Range draws from [lo,hi] inclusive; lo is the plain value.
func (t *Tape) Range(label string, lo, hi int) int {
	if hi <= lo {
		return lo
	}
	return lo + t.Draw(label, hi-lo+1)
}
