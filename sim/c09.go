package sim

import (
	"bytes"
	"errors"
	"fmt"
	"strings"
	"time"

	"github.com/pascaldekloe/mqtt"
)

// C09 quantifies over inputs and configurations only; no schedule or fault
// decides it. The simulator contributes the recording seams and the
// independent decoder; the input space is sampled by the seeded generator
// with boundary bias.

type c09Work struct {
	NetOpts
	W         *World
	C         *mqtt.Client
	Done      bool
	ready     bool
	exchanges []<-chan error
}

func (x *c09Work) Net() *NetOpts  { return &x.NetOpts }
func (x *c09Work) OnConn(c *Conn) {}

var illFormed = []string{
	"\xed\xa0\x80",     // surrogate U+D800
	"\xed\xbf\xbf",     // surrogate U+DFFF
	"\xc0\x80",         // overlong NUL
	"\xe0\x80\xaf",     // overlong slash
	"\xf0\x80\x80\xaf", // overlong, four bytes
	"\xe2\x82",         // truncated sequence
	"\xf4\x90\x80\x80", // beyond U+10FFFF
	"\x80",             // lone continuation byte
	"\xff",             // invalid byte
	"a\xc3",            // truncated at the end
}

func genValidString(t *Tape, min int) string {
	var n int
	switch t.Pick("slen", []int{6, 2, 1, 1, 1, 1}) {
	case 0:
		n = min + t.Draw("ssmall", 20)
	case 1:
		n = 127 + t.Draw("s127", 2)
	case 2:
		n = 65535
	case 3:
		n = 65534
	case 4:
		n = 1
	case 5:
		n = 300 + t.Draw("smid", 2000)
	}
	if n < min {
		n = min
	}
	var b strings.Builder
	// includes the first and last code point of every encoded length, the
	// replacement character itself and non-characters (all well-formed)
	alphabet := []string{"a", "b", "/", "é", "€", "𝄞", "\u007f", "\u0001", "+", "#", "z",
		"\ufffd", "\uffff", "\u0080", "\u07ff", "\u0800", "\ud7ff", "\ue000", "\U00010000", "\U0010ffff"}
	for b.Len() < n {
		r := alphabet[t.Draw("schar", len(alphabet))]
		if b.Len()+len(r) > n {
			r = "q"
		}
		b.WriteString(r)
	}
	return b.String()
}

func genInvalidString(t *Tape) (string, string) {
	switch t.Pick("invkind", []int{3, 6, 2, 2}) {
	case 0:
		return "", "empty"
	case 1:
		s := illFormed[t.Draw("ill", len(illFormed))]
		if t.Flip("illpad", 500) {
			s = "ab/" + s + "/cd"
		}
		return s, "ill-formed-utf8"
	case 2:
		return "a\x00b", "nul"
	}
	return strings.Repeat("x", 65536+t.Draw("over", 3)), "over-65535"
}

func famC09(w *World, spec *RunSpec, res *RunResult) {
	x := &c09Work{W: w}
	w.X = x
	t := w.Tape
	w.Disk = NewDisk(w)
	w.Broker = NewBroker(w)
	w.FaultsOff = true
	w.MaxSteps = 200000
	if t.Flip("slowwire", 300) {
		// the transport accepts packets in pieces (a prefix, then the
		// write deadline; the client has to continue where it stopped)
		w.FaultsOff = false
		w.Budget = 1 + t.Draw("slowbudget", 6)
		x.NetOpts.ShortWrite = 300
		x.NetOpts.ShortWriteProgress = true
	}

	// configuration: every field combination
	var cfg mqtt.Config
	cfg.PauseTimeout = time.Second
	cfg.KeepAlive = uint16([]int{0, 1, 60, 65535}[t.Draw("keepalive", 4)])
	cfg.CleanSession = t.Flip("clean", 500)
	userK := t.Draw("userk", 4) // none, user only, user+password, password only
	if userK == 1 || userK == 2 {
		cfg.UserName = genValidString(t, 1)
	}
	if userK == 2 || userK == 3 {
		cfg.Password = []byte(genValidString(t, 0))
		if t.Flip("emptypass", 200) {
			cfg.Password = []byte{}
		}
	}
	hasWill := t.Flip("will", 500)
	if hasWill {
		cfg.Will.Topic = genValidString(t, 1)
		cfg.Will.Message = []byte(genValidString(t, 0))
		if t.Flip("emptywill", 200) {
			cfg.Will.Message = []byte{}
		}
		cfg.Will.Retain = t.Flip("willretain", 500)
		cfg.Will.AtLeastOnce = t.Flip("willq1", 500)
		cfg.Will.ExactlyOnce = t.Flip("willq2", 300)
	}
	clientID := genValidString(t, 0)
	if len(clientID) > 200 && t.Flip("shortid", 700) {
		clientID = clientID[:23]
		for !validPrefix(clientID) {
			clientID = clientID[:len(clientID)-1]
		}
	}
	cfg.AtLeastOnceMax, cfg.ExactlyOnceMax = 1, 1
	if clientID == "" {
		// a zero-byte client identifier is only legal with a clean session
		// [MQTT-3.1.3-7]; the broker refuses it otherwise
		cfg.CleanSession = true
	}

	// invalid configurations are refused by the constructor
	if t.Flip("badconfig", 150) {
		bad := cfg
		what := ""
		switch t.Draw("badcfg", 5) {
		case 0:
			bad.UserName, what = illFormed[t.Draw("ill", len(illFormed))], "user name"
		case 1:
			bad.Password, what = bytes.Repeat([]byte{'p'}, 65536), "password"
		case 2:
			bad.Will.Message, bad.Will.Topic, what = []byte("m"), "", "will topic"
		case 3:
			bad.Will.Message, bad.Will.Topic, what = bytes.Repeat([]byte{'m'}, 65536), "t", "will message"
		case 4:
			bad.Will.Topic, what = "a\x00", "will topic NUL"
		}
		bad.Dialer = (&Sim{W: w}).Dialer()
		_, err := mqtt.VolatileSession("id", &bad)
		if err == nil {
			w.Violate("C09", "illegal-config-accepted", what, "a Config with an illegal %s was accepted by the constructor", what)
		}
		w.Probe("illegal_config")
		res.Touched = true
		res.Faultless = true
		res.Summary = "illegal config: " + what
		return
	}
	if t.Flip("badclientid", 80) {
		bad := cfg
		bad.Dialer = (&Sim{W: w}).Dialer()
		id, kind := genInvalidString(t)
		if kind != "empty" {
			if _, err := mqtt.VolatileSession(id, &bad); err == nil {
				w.Violate("C09", "illegal-config-accepted", "client identifier "+kind, "client identifier (%s) accepted", kind)
			}
		}
		res.Touched = true
		res.Faultless = true
		res.Summary = "illegal client identifier: " + kind
		return
	}

	type check struct{ fn func(c *Conn) }
	var viol []string
	_ = viol
	RunBubble(w, func(s *Sim) {
		w.Disk.Attach(s)
		cfg.Dialer = s.Dialer()
		s.Env = func() []Action {
			var acts []Action
			if c := s.Cur(); c != nil && c.Alive() && w.Broker.Pending(c) {
				acts = append(acts, Action{Name: "broker-recv", Weight: 30, Run: func() { w.Broker.Consume(c) }})
			}
			return acts
		}
		s.Done = func() bool { return x.Done }
		s.Unwind = func() {
			if x.C != nil {
				c := x.C
				go c.Close()
			}
		}
		s.Go("a-setup", func() {
			c, err := mqtt.InitSession(clientID, w.Disk, &cfg)
			if err != nil {
				w.Violate("C09", "valid-config-refused", "InitSession", "InitSession refused a valid configuration (client identifier %d bytes): %v", len(clientID), err)
				x.Done = true
				return
			}
			x.C = c
			s.Go("reader", func() {
				for {
					s.Pause("before-ReadSlices")
					_, _, err := c.ReadSlices()
					if errors.Is(err, mqtt.ErrClosed) || s.dead {
						return
					}
					if err != nil {
						var big *mqtt.BigMessage
						if !errors.As(err, &big) {
							if ch := c.ReadBackoff(err); ch != nil {
								<-ch
							}
						}
					}
				}
			})
			s.Go("driver", func() { x.driver(s, &cfg, clientID) })
		})
	})
	res.Touched = true
	res.Faultless = true
	res.Summary = fmt.Sprintf("config user=%d will=%v clean=%v keepalive=%d clientid=%dB; %d packets on the wire", userK, hasWill, cfg.CleanSession, cfg.KeepAlive, len(clientID), wirePkts(w))
}

func validPrefix(s string) bool {
	for _, r := range s {
		if r == 0xfffd {
			return false
		}
	}
	return true
}

func wirePkts(w *World) int {
	n := 0
	for _, c := range w.AllConns {
		n += len(c.Pkts)
	}
	return n
}

func (x *c09Work) driver(s *Sim, cfg *mqtt.Config, clientID string) {
	w := x.W
	t := w.Tape
	c := x.C
	defer func() { x.Done = true }()
	<-c.Online()
	conn := s.Cur()
	if conn == nil || len(conn.Pkts) == 0 {
		return
	}
	// CONNECT reflects the Config
	p := conn.Pkts[0]
	switch {
	case p.Type != CONNECT:
		w.Violate("C09", "connect", "not-first", "first packet is %s", p.String())
	case p.ClientID != clientID || p.Clean != cfg.CleanSession || p.KeepAlive != cfg.KeepAlive:
		w.Violate("C09", "connect", "basic-fields", "CONNECT client id %q clean %v keep-alive %d; Config says %q %v %d", trunc(p.ClientID, 30), p.Clean, p.KeepAlive, trunc(clientID, 30), cfg.CleanSession, cfg.KeepAlive)
	case p.HasUser != (cfg.UserName != "" || cfg.Password != nil) || p.User != cfg.UserName:
		w.Violate("C09", "connect", "user-name", "CONNECT user flag %v name %q; Config has user %q password nil=%v", p.HasUser, trunc(p.User, 30), trunc(cfg.UserName, 30), cfg.Password == nil)
	case p.HasPass != (cfg.Password != nil) || !bytes.Equal(p.Pass, cfg.Password):
		w.Violate("C09", "connect", "password", "CONNECT password flag %v (%d bytes); Config has %d bytes, nil=%v", p.HasPass, len(p.Pass), len(cfg.Password), cfg.Password == nil)
	case p.HasWill != (cfg.Will.Message != nil):
		w.Violate("C09", "connect", "will-flag", "CONNECT will flag %v; Config will message nil=%v", p.HasWill, cfg.Will.Message == nil)
	case p.HasWill && (p.WillTopic != cfg.Will.Topic || !bytes.Equal(p.WillMsg, cfg.Will.Message) || p.WillRetain != cfg.Will.Retain):
		w.Violate("C09", "connect", "will-fields", "CONNECT will %q (%d bytes, retain %v) differs from the Config", trunc(p.WillTopic, 30), len(p.WillMsg), p.WillRetain)
	case p.HasWill && p.WillQoS != willQoS(cfg):
		w.Violate("C09", "connect", "will-qos", "CONNECT will QoS %d; Config says %d", p.WillQoS, willQoS(cfg))
	}
	w.Probe("connect_decoded")

	nreq := 2 + t.Draw("nreq9", 6)
	for i := 0; i < nreq; i++ {
		s.Pause("req")
		if s.dead {
			return
		}
		conn = s.Cur()
		if conn == nil || !conn.Alive() {
			return
		}
		before := len(conn.Pkts)
		beforeBytes := len(conn.C2B)
		beforeDisk := len(w.Disk.Log)
		invalid := t.Flip("invalid", 350)
		kind := t.Draw("rkind9", 8)
		if !invalid {
			x.valid(s, conn, kind, before)
			continue
		}
		// an invalid argument: denied without trace
		bad, why := genInvalidString(t)
		var err error
		var name string
		switch kind {
		case 0:
			name, err = "Publish", c.Publish(nil, []byte("m"), bad)
		case 1:
			name, err = "PublishRetained", c.PublishRetained(nil, []byte("m"), bad)
		case 2:
			name = "PublishAtLeastOnce"
			_, err = c.PublishAtLeastOnce([]byte("m"), bad)
		case 3:
			name = "PublishExactlyOnceRetained"
			_, err = c.PublishExactlyOnceRetained([]byte("m"), bad)
		case 4:
			name, err = "Subscribe", c.Subscribe(nil, "ok/filter", bad)
		case 5:
			name, err = "Unsubscribe", c.Unsubscribe(nil, bad, "ok/filter")
		case 6:
			name, why, err = "Subscribe", "no-filters", c.Subscribe(nil)
		case 7:
			name, why, err = "Unsubscribe", "no-filters", c.Unsubscribe(nil)
		}
		w.Probe("invalid_" + why)
		if !mqtt.IsDeny(err) {
			w.Violate("C09", "invalid-not-denied", name+"-"+why, "%s with an invalid argument (%s) returned %v, want an IsDeny error", name, why, err)
		}
		if len(conn.C2B) != beforeBytes {
			w.Violate("C09", "denied-but-written", name+"-"+why, "%s was denied (%s) yet %d bytes were written", name, why, len(conn.C2B)-beforeBytes)
		}
		if len(w.Disk.Log) != beforeDisk {
			w.Violate("C09", "denied-but-persisted", name+"-"+why, "%s was denied (%s) yet the Persistence saw %d operations", name, why, len(w.Disk.Log)-beforeDisk)
		}
	}
	// capacity unchanged by denials: with maximum 1 a valid persisted publish
	// is still accepted, and denied subscribes do not use up slots
	for i := 0; i < 40; i++ {
		if err := c.Subscribe(nil, ""); !mqtt.IsDeny(err) || errors.Is(err, mqtt.ErrMax) {
			w.Violate("C09", "denied-consumes-capacity", "Subscribe", "the %d. denied Subscribe returned %v", i+1, err)
			break
		}
	}
	if _, err := c.PublishAtLeastOnce([]byte("m"), ""); !mqtt.IsDeny(err) {
		w.Violate("C09", "invalid-not-denied", "PublishAtLeastOnce-empty", "returned %v", err)
	}
	// (earlier valid transfers of that level must have completed first)
	for _, ex := range x.exchanges {
		for open := true; open && !s.dead; {
			select {
			case _, ok := <-ex:
				open = ok
			default:
				s.Pause("await-completion")
			}
		}
	}
	ex, err := c.PublishAtLeastOnce([]byte("after denials"), "valid/topic")
	if err != nil {
		w.Violate("C09", "denied-consumes-capacity", "PublishAtLeastOnce", "with AtLeastOnceMax 1 a valid publish after denied ones returned %v", err)
	}
	_ = ex
}

func willQoS(cfg *mqtt.Config) byte {
	switch {
	case cfg.Will.ExactlyOnce:
		return 2
	case cfg.Will.AtLeastOnce:
		return 1
	}
	return 0
}

// valid issues one request with valid, boundary-biased arguments and compares
// the packet on the wire with the request.
func (x *c09Work) valid(s *Sim, conn *Conn, kind, before int) {
	w := x.W
	t := w.Tape
	c := x.C
	topic := strings.NewReplacer("+", "p", "#", "h").Replace(genValidString(t, 1))
	// payload sizes across the remaining-length width boundaries
	psize := 0
	switch t.Pick("psize9", []int{6, 2, 2, 1}) {
	case 0:
		psize = t.Draw("psmall", 40)
	case 1:
		psize = 127 - 2 - len(topic) - 2 + t.Draw("p127", 4)
	case 2:
		psize = 16383 - 2 - len(topic) - 2 + t.Draw("p16383", 4)
	case 3:
		psize = 2097151 - 2 - len(topic) - 2 + t.Draw("p2m", 4)
	}
	if psize < 0 {
		psize = 0
	}
	payload := make([]byte, psize)
	for i := range payload {
		payload[i] = byte(i * 7)
	}
	var err error
	wantType, wantQ, wantRetain := byte(PUBLISH), byte(0), false
	var filters []string
	var wantMax byte
	name := ""
	switch kind {
	case 0:
		name, err = "Publish", c.Publish(nil, payload, topic)
	case 1:
		name, wantRetain = "PublishRetained", true
		err = c.PublishRetained(nil, payload, topic)
	case 2:
		name, wantQ = "PublishAtLeastOnce", 1
		var ex <-chan error
		ex, err = c.PublishAtLeastOnce(payload, topic)
		if err == nil {
			x.exchanges = append(x.exchanges, ex)
		}
	case 3:
		name, wantQ, wantRetain = "PublishExactlyOnceRetained", 2, true
		_, err = c.PublishExactlyOnceRetained(payload, topic)
	case 4, 5, 6:
		wantType = SUBSCRIBE
		n := 1 + t.Draw("nfilt9", 4)
		for i := 0; i < n; i++ {
			filters = append(filters, genValidString(t, 1))
		}
		switch kind {
		case 4:
			name, wantMax = "Subscribe", 2
			err = c.Subscribe(nil, filters...)
		case 5:
			name, wantMax = "SubscribeLimitAtMostOnce", 0
			err = c.SubscribeLimitAtMostOnce(nil, filters...)
		case 6:
			name, wantMax = "SubscribeLimitAtLeastOnce", 1
			err = c.SubscribeLimitAtLeastOnce(nil, filters...)
		}
	case 7:
		wantType = UNSUBSCRIBE
		name = "Unsubscribe"
		n := 1 + t.Draw("nfilt9", 4)
		for i := 0; i < n; i++ {
			filters = append(filters, genValidString(t, 1))
		}
		err = c.Unsubscribe(nil, filters...)
	}
	if mqtt.IsDeny(err) {
		w.Violate("C09", "valid-denied", name, "%s with valid arguments (topic %d bytes, payload %d bytes) was denied: %v", name, len(topic), len(payload), err)
		return
	}
	if errors.Is(err, mqtt.ErrMax) {
		return // the previous transfer of this level is still in flight
	}
	// wait for the packet (subscribes run in their own goroutine)
	for i := 0; i < 400 && len(conn.Pkts) <= before && !s.dead; i++ {
		s.Pause("await-wire")
	}
	var p *WirePkt
	for i := before; i < len(conn.Pkts); i++ {
		if conn.Pkts[i].Type == wantType {
			p = &conn.Pkts[i]
			break
		}
	}
	if conn.ParseErr != nil {
		w.Violate("C09", "malformed", name, "%s produced bytes the strict decoder rejects: %v", name, conn.ParseErr)
		return
	}
	if p == nil {
		return
	}
	w.Probe("decoded_" + typeNames[wantType])
	switch wantType {
	case PUBLISH:
		if p.Topic != topic || !bytes.Equal(p.Payload, payload) || p.QoS != wantQ || p.Retain != wantRetain || p.Dup || (wantQ > 0) != (p.ID != 0) {
			w.Violate("C09", "fields", name, "%s(topic %d bytes, payload %d bytes): the packet decodes to topic %d bytes, payload %d bytes, q%d retain=%v dup=%v id=%#x", name, len(topic), len(payload), len(p.Topic), len(p.Payload), p.QoS, p.Retain, p.Dup, p.ID)
		}
		if len(p.Raw)-2 > 127 {
			w.Probe("remaining_length_multi_byte")
		}
	case SUBSCRIBE, UNSUBSCRIBE:
		if strings.Join(p.Filters, "\x00") != strings.Join(filters, "\x00") {
			w.Violate("C09", "fields", name, "%s: filters on the wire differ from the %d requested", name, len(filters))
		}
		if wantType == SUBSCRIBE {
			for _, q := range p.MaxQoS {
				if q != wantMax {
					w.Violate("C09", "fields", name+"-level", "%s requests maximum QoS %d, want %d", name, q, wantMax)
				}
			}
		}
	}
}

// famC09Huge exercises the packet size limit itself: persisted publishes whose
// remaining length is 268,435,455 - 1, exactly that, + 1 and + 2 bytes, on a
// client that is offline (the packet goes to the Persistence, not to a wire).
func famC09Huge(w *World, spec *RunSpec, res *RunResult) {
	x := &c09Work{W: w}
	w.X = x
	t := w.Tape
	w.Disk = NewDisk(w)
	w.Broker = NewBroker(w)
	w.FaultsOff = true
	w.MaxSteps = 200000
	const packetMax = 268435455
	level := 1 + t.Draw("hugelevel", 2)
	topic := "h/" + genValidString(t, 1)
	if len(topic) > 40 {
		topic = topic[:40]
		for !validPrefix(topic) {
			topic = topic[:len(topic)-1]
		}
	}
	delta := []int{0, -1, 1, 2}[t.Draw("hugedelta", 4)]
	n := packetMax - 2 - len(topic) - 2 + delta
	msg := make([]byte, n)
	msg[0], msg[n-1] = 0xa5, 0x5a
	var cfg mqtt.Config
	cfg.PauseTimeout = time.Second
	cfg.AtLeastOnceMax, cfg.ExactlyOnceMax = 2, 2
	RunBubble(w, func(s *Sim) {
		w.Disk.Attach(s)
		cfg.Dialer = s.Dialer()
		s.Done = func() bool { return x.Done }
		s.Unwind = func() {
			if x.C != nil {
				c := x.C
				go c.Close()
			}
		}
		s.Go("driver", func() {
			defer func() { x.Done = true }()
			c, err := mqtt.InitSession("huge", w.Disk, &cfg)
			if err != nil {
				w.Violate("C09", "valid-config-refused", "InitSession", "InitSession: %v", err)
				return
			}
			x.C = c
			saves0 := 0
			for _, op := range w.Disk.Log {
				if op.Kind == 'S' && op.Effect {
					saves0++
				}
			}
			var ex <-chan error
			name := "PublishAtLeastOnce"
			if level == 1 {
				ex, err = c.PublishAtLeastOnce(msg, topic)
			} else {
				name = "PublishExactlyOnce"
				ex, err = c.PublishExactlyOnce(msg, topic)
			}
			_ = ex
			var rec []byte
			saves := 0
			for _, op := range w.Disk.Log {
				if op.Kind == 'S' && op.Effect {
					saves++
					if op.Key != 0 {
						rec = op.Val
					}
				}
			}
			saves -= saves0
			size := 2 + len(topic) + 2 + n
			if delta > 0 {
				w.Probe("invalid_over-268435455")
				if err == nil || !mqtt.IsDeny(err) {
					w.Violate("C09", "invalid-accepted", name+"-over-268435455", "%s with a remaining length of %d bytes (limit %d) returned %v, want an IsDeny error", name, size, packetMax, err)
				}
				if saves != 0 {
					w.Violate("C09", "denied-left-trace", name+"-over-268435455", "%s with a remaining length of %d bytes stored %d records", name, size, saves)
				}
				return
			}
			w.Probe("valid_at-268435455")
			if err != nil {
				w.Violate("C09", "valid-denied", name+"-at-limit", "%s with a remaining length of %d bytes (limit %d) was refused: %v", name, size, packetMax, err)
				return
			}
			pkt, _, _, ok := StoredPacket(rec)
			if !ok || len(pkt) < 5 {
				w.Violate("C09", "malformed", name+"-at-limit", "%s at the size limit: no stored packet (%d bytes)", name, len(rec))
				return
			}
			want := append([]byte{byte(PUBLISH<<4) | byte(level)<<1}, encLen(size)...)
			if !bytes.Equal(pkt[:len(want)], want) || len(pkt) != len(want)+size {
				w.Violate("C09", "malformed", name+"-at-limit", "%s with a remaining length of %d bytes: stored packet begins % x and has %d bytes, want % x and %d bytes", name, size, pkt[:5], len(pkt), want, len(want)+size)
			}
		})
	})
	res.Touched = true
	res.Faultless = true
	res.Summary = fmt.Sprintf("size limit: level %d, remaining length %d%+d", level, packetMax, delta)
}

func init() {
	register("C09", Family{Name: "codec", Weight: 1500, Run: famC09})
	register("C09", Family{Name: "size-limit", Weight: 150, Cost: 150000, Run: famC09Huge})
}
