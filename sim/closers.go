package sim

import (
	"errors"
	"fmt"
	"runtime"
	"strings"

	"github.com/pascaldekloe/mqtt"
)

// Closer tasks end the client with Close or Disconnect at a step the
// simulator chooses (C12).

const (
	ckClose = iota
	ckDisconnectNil
	ckDisconnectOpen
	ckDisconnectClosed
)

var ckNames = [...]string{"Close", "Disconnect(nil)", "Disconnect(open quit)", "Disconnect(closed quit)"}

type Closer struct {
	Idx     int
	Kind    int
	Invoke  int
	Ret     int
	InvTime int64
	Err     error
	Panic   string
	ConnAt  int // current connection at invocation (-1 none)
}

func (f *Flow) startCloser() {
	w := f.W
	s := f.S
	cl := &Closer{Idx: len(f.Closers), Kind: w.Tape.Pick("ckind", f.O.CloserMix[:]), ConnAt: -1}
	f.Closers = append(f.Closers, cl)
	name := fmt.Sprintf("closer%d", cl.Idx)
	w.Ev("closer", cl.Idx, "%s starts: %s", name, ckNames[cl.Kind])
	w.Probe("closer_" + f.phase())
	s.Go(name, func() {
		if c := s.Cur(); c != nil {
			cl.ConnAt = c.id
		}
		cl.Invoke = w.Steps
		cl.InvTime = int64(s.Now())
		func() {
			defer func() {
				if p := recover(); p != nil {
					cl.Panic = fmt.Sprint(p)
					w.Violate("C12", "panic", ckNames[cl.Kind], "%s panicked: %v", ckNames[cl.Kind], p)
				}
			}()
			switch cl.Kind {
			case ckClose:
				cl.Err = f.C.Close()
			case ckDisconnectNil:
				cl.Err = f.C.Disconnect(nil)
			case ckDisconnectOpen:
				cl.Err = f.C.Disconnect(make(chan struct{}))
			case ckDisconnectClosed:
				q := make(chan struct{})
				close(q)
				cl.Err = f.C.Disconnect(q)
			}
		}()
		if s.dead {
			return // released by the unwinding only: it never returned
		}
		cl.Ret = w.Steps
		w.Ev("closer", cl.Idx, "%s %s -> %s", name, ckNames[cl.Kind], shortErr(cl.Err))
	})
}

// phase names the client state for reach probes.
func (f *Flow) phase() string {
	s := f.S
	c := s.Cur()
	switch {
	case f.ClosedAt != 0:
		return "already-closed"
	case c == nil:
		for _, p := range s.parked {
			if p.kind == pkDial {
				return "dialing"
			}
		}
		return "never-connected"
	case !c.Alive():
		for _, p := range s.parked {
			if p.kind == pkDial {
				return "dialing"
			}
		}
		return "offline"
	case c.ConnackStep == 0:
		return "awaiting-connack"
	case f.OnlineConn != c.id:
		return "resending"
	}
	for _, p := range s.parked {
		if p.kind == pkWrite && p.g != "reader" {
			return "online-writer-in-flight"
		}
	}
	return "online"
}

func (f *Flow) closerActions() []Action {
	if f.C == nil || f.O.Closers == 0 {
		return nil
	}
	w := f.W
	if f.O.CloserAtStep > 0 {
		// sweep: the first closer starts exactly at the given step
		if len(f.Closers) == 0 {
			if w.Steps >= f.O.CloserAtStep {
				f.startCloser()
			}
			return nil
		}
	}
	if len(f.Closers) < f.O.Closers {
		wgt := f.O.CloserW
		if len(f.Closers) > 0 {
			wgt = 20 // the others follow closely: concurrent invocations
		}
		return []Action{{Name: "start-closer", Weight: wgt, Run: f.startCloser}}
	}
	return nil
}

func (f *Flow) closersReturned() bool {
	if len(f.Closers) < f.O.Closers {
		return false
	}
	for _, c := range f.Closers {
		if c.Ret == 0 {
			return false
		}
	}
	return true
}

// probeTask calls every method twice after the client was closed.
func (f *Flow) probeTask(s *Sim) {
	w := f.W
	check := func(name string, err error) {
		if !errors.Is(err, mqtt.ErrClosed) {
			w.Violate("C12", "use-after-close", name, "%s after Close/Disconnect returned %q, want ErrClosed", name, shortErr(err))
		}
	}
	for round := 0; round < 2; round++ {
		s.Pause("probe")
		check("Publish", f.C.Publish(nil, []byte("x"), "probe/a"))
		check("PublishRetained", f.C.PublishRetained(nil, []byte("x"), "probe/a"))
		_, err := f.C.PublishAtLeastOnce([]byte("x"), "probe/b")
		check("PublishAtLeastOnce", err)
		_, err = f.C.PublishExactlyOnce([]byte("x"), "probe/c")
		check("PublishExactlyOnce", err)
		check("Subscribe", f.C.Subscribe(nil, "probe/d"))
		check("Unsubscribe", f.C.Unsubscribe(nil, "probe/d"))
		if err := f.C.Ping(nil); !errors.Is(err, mqtt.ErrMax) || !f.pingInFlight() {
			// a concurrent Ping of another task may hold the single slot
			check("Ping", err)
		}
		check("Disconnect", f.C.Disconnect(nil))
		if err := f.C.Close(); err != nil {
			w.Violate("C12", "use-after-close", "Close", "Close on a closed client returned %v", err)
		}
	}
	f.ProbeDone = true
	w.Probe("post_close_probe")
}

func (f *Flow) pingInFlight() bool {
	for _, r := range f.ActiveReqs {
		if r.Kind == rkPing && r.Invoke != 0 && r.Ret == 0 {
			return true
		}
	}
	return false
}

// ---- C12 ----

type monC12 struct {
	NopMonitor
	probeStarted bool
}

func (m *monC12) Step(f *Flow) {
	w := f.W
	if f.O.Closers == 0 || f.C == nil {
		return
	}
	if f.ClosedAt == 0 {
		for _, c := range f.Closers {
			if c.Ret != 0 {
				f.ClosedAt = c.Ret
				f.ClosedTime = f.S.Now()
				w.FaultsOff = true
				w.MaxSteps = w.Steps + 250000
			}
		}
		return
	}
	on, off, known := f.C.VerifSignals()
	if known {
		if on {
			w.Violate("C12", "online-after-close", "signal", "Online is released after Close/Disconnect returned at step %d", f.ClosedAt)
		}
		if !off {
			w.Violate("C12", "offline-blocked-after-close", "signal", "Offline is blocked after Close/Disconnect returned at step %d", f.ClosedAt)
		}
	}
	if f.closersReturned() && !m.probeStarted {
		m.probeStarted = true
		f.S.Go("probe", func() { f.probeTask(f.S) })
	}
}

func (f *Flow) c12Done() bool {
	return f.O.Closers > 0 && f.closersReturned() && f.ProbeDone && f.ReaderClosed && f.pubTasksLive == 0 && f.reqTasksLive == 0
}

func (m *monC12) Final(f *Flow) {
	w := f.W
	if f.O.Closers == 0 || f.C == nil || w.Inconcl != "" {
		return
	}
	s := f.S
	for _, c := range f.Closers {
		if c.Invoke != 0 && c.Ret == 0 {
			w.Violate("C12", "never-returned", ckNames[c.Kind]+f.stuckWhere(), "%s invoked at step %d (client state then: connection %d) had not returned after %d further steps; task parked at %q", ckNames[c.Kind], c.Invoke, c.ConnAt, w.Steps-c.Invoke, s.FinalParks[fmt.Sprintf("closer%d", c.Idx)])
			return
		}
	}
	if f.ClosedAt == 0 {
		return
	}
	if !f.ReaderClosed {
		w.Violate("C12", "readslices-blocks", f.stuckWhere()[1:], "ReadSlices did not report ErrClosed within %d steps and %v after Close/Disconnect returned; reader: %s", w.Steps-f.ClosedAt, s.Now()-f.ClosedTime, f.readerWhere())
		return
	}
	for _, r := range f.Reqs {
		if r.Invoke != 0 && r.Ret == 0 && !r.Dead {
			w.Violate("C12", "request-blocks", rkNames[r.Kind], "%s #%d still blocked after the client was closed and ReadSlices reported ErrClosed", rkNames[r.Kind], r.Idx)
			return
		}
	}
	// every pending exchange got ErrClosed and stays open
	for _, pb := range f.Pubs {
		if !pb.Accepted() || pb.Gen != w.Gen || pb.Ex == nil {
			continue
		}
		if pb.ExClosed {
			if !f.finalAckHanded(pb) {
				w.Violate("C12", "exchange-closed-by-close", fmt.Sprintf("q%d", pb.QoS), "the exchange channel of publish #%d was closed although it was not acknowledged", pb.Idx)
			}
			continue
		}
		got := false
		for _, e := range pb.ExErrs {
			if errors.Is(e, mqtt.ErrClosed) {
				got = true
			}
		}
		if !got {
			w.Violate("C12", "exchange-without-errclosed", fmt.Sprintf("q%d", pb.QoS), "ReadSlices reported ErrClosed but the pending exchange of publish #%d received %v", pb.Idx, pb.ExErrs)
			return
		}
		w.Probe("exchange_got_errclosed")
	}
	for _, c := range s.conns {
		if !c.ClosedLive {
			w.Violate("C12", "connection-left-open", "conn", "conn%d was never closed by the client", c.id)
			return
		}
	}
	for _, cl := range f.Closers {
		if cl.Kind != ckClose && cl.Err == nil {
			w.Probe("disconnect_succeeded")
			c := w.AllConns[len(w.AllConns)-1]
			if cl.ConnAt >= 0 {
				c = w.AllConns[cl.ConnAt]
			}
			// its connection: the one that carries DISCONNECT
			var dc *Conn
			for _, x := range s.conns {
				for _, p := range x.Pkts {
					if p.Type == DISCONNECT {
						dc = x
					}
				}
			}
			if dc == nil {
				w.Violate("C12", "disconnect-not-sent", "wire", "%s returned nil but no DISCONNECT packet is on any connection", ckNames[cl.Kind])
				return
			}
			_ = c
			if last := dc.Pkts[len(dc.Pkts)-1]; last.Type != DISCONNECT || dc.parsed != len(dc.C2B) {
				w.Violate("C12", "disconnect-not-last", "wire", "conn%d: DISCONNECT is followed by %s (or a fragment)", dc.id, last.String())
			}
		}
	}
	if n := f.LeakedLib; n > 0 {
		w.Violate("C12", "goroutine-left", "census", "%d goroutines of the library are still alive after the client was closed and ReadSlices reported ErrClosed:\n%s", n, f.LeakSample)
	}
}

// census counts goroutines of the current bubble that sit in library code
// without a harness frame below them (goroutines the library started itself).
func (f *Flow) census() {
	buf := make([]byte, 1<<20)
	buf = buf[:runtime.Stack(buf, true)]
	n := 0
	sample := ""
	for _, g := range strings.Split(string(buf), "\n\n") {
		if !strings.Contains(g, "synctest bubble") {
			continue
		}
		if strings.Contains(g, "verif/sim.") && !strings.Contains(g, "verifsim.Yield") {
			continue
		}
		if strings.Contains(g, "verif/sim.(*Sim).Go") || strings.Contains(g, "verif/sim.RunBubble") {
			continue
		}
		if strings.Contains(g, "github.com/pascaldekloe/mqtt.") {
			n++
			if sample == "" {
				sample = g
				if len(sample) > 1500 {
					sample = sample[:1500]
				}
			}
		}
	}
	f.LeakedLib = n
	f.LeakSample = sample
}
