package sim

import (
	"bytes"
	"errors"
	"fmt"
	"github.com/pascaldekloe/mqtt/verifsim"
	"sort"
	"strings"
	"testing"
	"time"

	"github.com/pascaldekloe/mqtt"
	"github.com/pascaldekloe/mqtt/mqtttest"
)

// C20: the mqtttest doubles under the simulator. The comparison clause is a
// function of (expectation list, call sequence) and is decided by seeded
// generation against a reference model with a recording testing.TB; what the
// simulator adds is the fake clock for exchange scripts and real
// interleavings of 1-3 calling tasks at the yields inserted into mqtttest.

type recTB struct {
	testing.TB      // nil: only the methods below may be called
	s          *Sim // when set: reporting is a scheduling point (a real testing.T locks and formats; callers overlap there)
	errors     []string
	fatals     []string
	cleanups   []func()
}

type tbFatal struct{}

func (r *recTB) yield() {
	if r.s != nil && !r.s.dead {
		if _, task := r.s.names[verifsim.Goid()]; task {
			r.s.Pause("tb") // only tasks park: the constructor runs on the scheduler's goroutine
		}
	}
}
func (r *recTB) Helper() { r.yield() }
func (r *recTB) Errorf(format string, a ...any) {
	r.yield()
	r.errors = append(r.errors, fmt.Sprintf(format, a...))
}
func (r *recTB) Error(a ...any) { r.yield(); r.errors = append(r.errors, fmt.Sprint(a...)) }
func (r *recTB) Fatalf(format string, a ...any) {
	r.fatals = append(r.fatals, fmt.Sprintf(format, a...))
	panic(tbFatal{})
}
func (r *recTB) Fatal(a ...any)      { r.fatals = append(r.fatals, fmt.Sprint(a...)); panic(tbFatal{}) }
func (r *recTB) Cleanup(f func())    { r.cleanups = append(r.cleanups, f) }
func (r *recTB) Logf(string, ...any) {}
func (r *recTB) Log(...any)          {}
func (r *recTB) Name() string        { return "sim" }
func (r *recTB) Failed() bool        { return len(r.errors)+len(r.fatals) > 0 }
func (r *recTB) runCleanups() {
	for i := len(r.cleanups) - 1; i >= 0; i-- {
		r.cleanups[i]()
	}
}

type c20Work struct {
	W    *World
	live int
}

var c20Msgs = [][]byte{[]byte("m1"), []byte("m2"), {}}
var c20Topics = []string{"t1", "t2"}

type mockCall struct {
	task    int
	msg     []byte
	topic   string
	filters []string
	quitK   int
	ret     error
	panicV  any
	fatal   bool
}

func famC20Publish(w *World, spec *RunSpec, res *RunResult) {
	x := &c20Work{W: w}
	w.X = x
	t := w.Tape
	tb := &recTB{}
	nwant := t.Draw("nwant", 5)
	var want []mqtttest.Transfer
	errs := make([]error, nwant)
	for i := 0; i < nwant; i++ {
		errs[i] = fmt.Errorf("expectation-%d", i) // unique: identifies which expectation a call consumed
		want = append(want, mqtttest.Transfer{Message: c20Msgs[t.Draw("wmsg", 3)], Topic: c20Topics[t.Draw("wtopic", 2)], Err: errs[i]})
	}
	var calls []*mockCall
	RunBubble(w, func(s *Sim) {
		tb.s = s
		mock := mqtttest.NewPublishMock(tb, want...)
		ntasks := 1 + t.Draw("ntasks", 3)
		ncalls := t.Draw("ncalls", nwant+3)
		x.live = ntasks
		s.Done = func() bool { return x.live == 0 }
		next := 0
		for ti := 0; ti < ntasks; ti++ {
			ti := ti
			s.Go(fmt.Sprintf("caller%d", ti), func() {
				defer func() { x.live-- }()
				for {
					s.Pause("call")
					if next >= ncalls || s.dead {
						return
					}
					k := next
					next++
					c := &mockCall{task: ti}
					// mostly what is expected next, sometimes deviating in
					// message, in topic, or in both, independently
					base := mqtttest.Transfer{Message: c20Msgs[0], Topic: c20Topics[0]}
					if k < nwant {
						base = want[k]
					}
					c.msg, c.topic = base.Message, base.Topic
					if t.Flip("devmsg", 250) {
						c.msg = append(append([]byte{}, base.Message...), 'x')
					}
					if t.Flip("devtopic", 250) {
						c.topic = base.Topic + "x"
					}
					c.quitK = t.Pick("quitk", []int{5, 2, 1})
					var quit chan struct{}
					switch c.quitK {
					case 1:
						quit = make(chan struct{})
					case 2:
						quit = make(chan struct{})
						close(quit)
					}
					calls = append(calls, c)
					func() {
						defer func() { c.panicV = recover() }()
						c.ret = mock(quit, c.msg, c.topic)
					}()
				}
			})
		}
	})
	tb.s = nil
	tb.runCleanups()
	// reference model
	wantErrors := 0
	consumed := 0
	pubUsed := map[int]bool{}
	for _, c := range calls {
		if c.panicV != nil {
			w.Violate("C20", "mock-panic", "publish", "the publish mock panicked: %v", c.panicV)
			return
		}
		if c.quitK == 2 {
			if !errors.Is(c.ret, mqtt.ErrCanceled) {
				w.Violate("C20", "quit-contract", "publish-mock", "publish mock with a closed quit returned %v, want ErrCanceled", c.ret)
			}
			continue
		}
		idx := -1
		for i := range errs {
			if c.ret == errs[i] {
				idx = i
			}
		}
		consumed++
		if idx < 0 {
			// surplus call
			if c.ret != nil {
				w.Violate("C20", "surplus-return", "publish", "surplus publish returned %v", c.ret)
			}
			wantErrors++
			continue
		}
		if pubUsed[idx] {
			w.Violate("C20", "expectation-consumed-twice", "publish", "expectations %v: expectation %d was applied to two invocations", want, idx)
			return
		}
		pubUsed[idx] = true
		if !bytes.Equal(c.msg, want[idx].Message) || c.topic != want[idx].Topic {
			wantErrors++
			w.Probe("deviation_generated")
		}
	}
	if consumed < nwant {
		wantErrors++ // too few calls: reported by the cleanup
	}
	// a failure is recorded exactly when something deviates (the number of
	// lines per deviation is not part of the contract)
	if (len(tb.errors) > 0) != (wantErrors > 0) {
		kind := "missed"
		if len(tb.errors) > 0 {
			kind = "spurious"
		}
		w.Violate("C20", "publish-mock-report", kind, "expectations %s, calls %s: the mock recorded %d failures (%q), the reference model expects %d", fmtTransfers(want), fmtCalls(calls), len(tb.errors), tb.errors, wantErrors)
	}
	res.Summary = fmt.Sprintf("publish mock: %d expectations, %d calls, %d failures recorded", nwant, len(calls), len(tb.errors))
	res.Touched = wantErrors > 0
	res.Faultless = true
}

func fmtTransfers(l []mqtttest.Transfer) string {
	s := "["
	for _, t := range l {
		s += fmt.Sprintf("%q->%s ", t.Message, t.Topic)
	}
	return s + "]"
}

func fmtCalls(l []*mockCall) string {
	s := "["
	for _, c := range l {
		if c.filters != nil {
			s += fmt.Sprintf("%q(quit%d)=%v ", c.filters, c.quitK, c.ret)
		} else {
			s += fmt.Sprintf("%q->%s(quit%d)=%v ", c.msg, c.topic, c.quitK, c.ret)
		}
	}
	return s + "]"
}

var c20Filters = []string{"a", "b", "c"}

func famC20Subscribe(w *World, spec *RunSpec, res *RunResult) {
	x := &c20Work{W: w}
	w.X = x
	t := w.Tape
	tb := &recTB{}
	unsub := t.Flip("unsub", 500)
	nwant := t.Draw("nwant", 4)
	var want []mqtttest.Filter
	errs := make([]error, nwant)
	for i := 0; i < nwant; i++ {
		errs[i] = fmt.Errorf("expectation-%d", i)
		var topics []string
		for _, f := range c20Filters {
			if t.Flip("wfilt", 500) {
				topics = append(topics, f)
			}
		}
		if len(topics) == 0 {
			topics = []string{"a"}
		}
		want = append(want, mqtttest.Filter{Topics: topics, Err: errs[i]})
	}
	var calls []*mockCall
	RunBubble(w, func(s *Sim) {
		tb.s = s
		var mock func(quit <-chan struct{}, topicFilters ...string) error
		if unsub {
			mock = mqtttest.NewUnsubscribeMock(tb, want...)
		} else {
			mock = mqtttest.NewSubscribeMock(tb, want...)
		}
		ntasks := 1 + t.Draw("ntasks", 2)
		ncalls := t.Draw("ncalls", nwant+3)
		x.live = ntasks
		s.Done = func() bool { return x.live == 0 }
		next := 0
		for ti := 0; ti < ntasks; ti++ {
			ti := ti
			s.Go(fmt.Sprintf("caller%d", ti), func() {
				defer func() { x.live-- }()
				for {
					s.Pause("call")
					if next >= ncalls || s.dead {
						return
					}
					k := next
					next++
					c := &mockCall{task: ti}
					base := []string{"a"}
					if k < nwant {
						base = append([]string{}, want[k].Topics...)
					}
					// order is ignored by the mock: shuffle
					for i := len(base) - 1; i > 0; i-- {
						j := t.Draw("fshuf", i+1)
						base[i], base[j] = base[j], base[i]
					}
					switch t.Pick("fdev", []int{6, 1, 1}) {
					case 1:
						base = append(base, "z")
					case 2:
						if len(base) > 1 {
							base = base[1:]
						} else {
							base = []string{"z"}
						}
					}
					c.filters = base
					c.quitK = t.Pick("quitk", []int{5, 2, 1})
					var quit chan struct{}
					switch c.quitK {
					case 1:
						quit = make(chan struct{})
					case 2:
						quit = make(chan struct{})
						close(quit)
					}
					calls = append(calls, c)
					func() {
						defer func() {
							if p := recover(); p != nil {
								if _, ok := p.(tbFatal); ok {
									c.fatal = true
								} else {
									c.panicV = p
								}
							}
						}()
						c.ret = mock(quit, c.filters...)
					}()
				}
			})
		}
	})
	tb.s = nil
	tb.runCleanups()
	name := "subscribe"
	if unsub {
		name = "unsubscribe"
	}
	wantErrors, consumed := 0, 0
	usedBy := map[int]*mockCall{}
	for _, c := range calls {
		if c.panicV != nil {
			w.Violate("C20", "mock-panic", name, "expectations %v, calls %s: the %s mock panicked: %v", want, fmtCalls(calls), name, c.panicV)
			return
		}
		if c.quitK == 2 {
			if !errors.Is(c.ret, mqtt.ErrCanceled) {
				w.Violate("C20", "quit-contract", name+"-mock", "%s mock with a closed quit returned %v, want ErrCanceled", name, c.ret)
			}
			continue
		}
		idx := -1
		for i := range errs {
			if c.ret == errs[i] {
				idx = i
			}
		}
		consumed++
		if idx < 0 {
			wantErrors++
			continue
		}
		if usedBy[idx] != nil {
			// each expectation is met by one invocation: in-order
			// consumption is what "the number of calls" rests on
			w.Violate("C20", "expectation-consumed-twice", name, "expectations %v, calls %s: expectation %d was applied to two invocations", want, fmtCalls(calls), idx)
			return
		}
		usedBy[idx] = c
		a := append([]string{}, c.filters...)
		b := append([]string{}, want[idx].Topics...)
		sort.Strings(a)
		sort.Strings(b)
		if strings.Join(a, ",") != strings.Join(b, ",") {
			w.Probe("deviation_generated")
			// the mock reports unwanted and missing filters separately
			miss, extra := 0, 0
			for _, f := range a {
				if !contains(b, f) {
					extra = 1
				}
			}
			for _, f := range b {
				if !contains(a, f) {
					miss = 1
				}
			}
			wantErrors += miss + extra
		}
	}
	if consumed < nwant {
		wantErrors++
	}
	// a deviation must be reported at least once and a match never; the
	// exact count per deviating call is one or two lines
	devCalls := wantErrors > 0
	if (len(tb.errors) > 0) != devCalls {
		kind := "missed"
		if len(tb.errors) > 0 {
			kind = "spurious"
		}
		w.Violate("C20", name+"-mock-report", kind, "expectations %v, calls %s: the mock recorded %d failures (%q), the reference model expects %d", want, fmtCalls(calls), len(tb.errors), tb.errors, wantErrors)
	}
	res.Summary = fmt.Sprintf("%s mock: %d expectations, %d calls, %d failures recorded", name, nwant, len(calls), len(tb.errors))
	res.Touched = wantErrors > 0
	res.Faultless = true
}

func contains(l []string, s string) bool {
	for _, x := range l {
		if x == s {
			return true
		}
	}
	return false
}

// famC20Stubs: quit contract, private copies, exchange scripts under the fake
// clock.
func famC20Stubs(w *World, spec *RunSpec, res *RunResult) {
	x := &c20Work{W: w}
	w.X = x
	t := w.Tape
	// exchange script
	type step struct {
		err   error
		delay time.Duration
	}
	var script []error
	var exp []step
	var cum time.Duration
	n := t.Draw("nscript", 5)
	endOpen := false
	for i := 0; i < n; i++ {
		last := i == n-1
		switch t.Pick("skind", []int{4, 3, 1, 1}) {
		case 0:
			e := fmt.Errorf("scripted-%d", i)
			script = append(script, e)
			exp = append(exp, step{e, cum})
		case 1:
			d := time.Duration(1+t.Draw("sdelay", 5000)) * time.Millisecond
			script = append(script, mqtttest.ExchangeBlock{Delay: d})
			cum += d
		case 2:
			if last {
				e := fmt.Errorf("%w; scripted", mqtt.ErrClosed)
				script = append(script, e)
				exp = append(exp, step{e, cum})
				endOpen = true
			}
		case 3:
			if last {
				script = append(script, mqtttest.ExchangeBlock{})
				endOpen = true
			}
		}
	}
	type got struct {
		err error
		at  time.Duration
	}
	var gots []got
	closedAt := time.Duration(-1)
	var stubErr error
	var quitErr, subQuitErr error
	copyOK := true
	RunBubble(w, func(s *Sim) {
		stub := mqtttest.NewPublishExchangeStub(nil, script...)
		ch, err := stub([]byte("m"), "t")
		stubErr = err
		t0 := s.Now()
		x.live = 1
		s.Go("misc", func() {
			defer func() { x.live-- }()
			s.Pause("misc")
			q := make(chan struct{})
			close(q)
			quitErr = mqtttest.NewPublishStub(nil)(q, []byte("m"), "t")
			subQuitErr = mqtttest.NewSubscribeStub(nil)(q, "a")
			fix := mqtttest.Transfer{Message: []byte("payload"), Topic: "topic"}
			rs := mqtttest.NewReadSlicesStub(fix)
			m1, t1, _ := rs()
			if len(m1) > 0 {
				m1[0] = 'X'
			}
			if len(t1) > 0 {
				t1[0] = 'X'
			}
			m2, t2, _ := rs()
			if string(m2) != "payload" || string(t2) != "topic" || string(fix.Message) != "payload" {
				copyOK = false
			}
			// the slices of the first call are still the caller's
			if string(m1) != "Xayload" || string(t1) != "Xopic" {
				copyOK = false
			}
			if len(m2) > 0 {
				m2[0] = 'Y'
			}
			if string(m1) != "Xayload" {
				copyOK = false
			}
		})
		// the run ends when the channel was closed, or when nothing can
		// happen any more (open-ended scripts)
		s.Done = func() bool { return x.live == 0 && closedAt >= 0 }
		s.StepHook = func() {
			for closedAt < 0 {
				select {
				case e, ok := <-ch:
					if !ok {
						closedAt = s.Now() - t0
						return
					}
					gots = append(gots, got{e, s.Now() - t0})
				default:
					return
				}
			}
		}
		s.tickW = 3
	})
	if stubErr != nil {
		w.Violate("C20", "exchange-stub", "return", "NewPublishExchangeStub(nil, ...) returned %v", stubErr)
	}
	if !errors.Is(quitErr, mqtt.ErrCanceled) || !errors.Is(subQuitErr, mqtt.ErrCanceled) {
		w.Violate("C20", "quit-contract", "stub", "stubs with a closed quit returned %v and %v, want ErrCanceled", quitErr, subQuitErr)
	}
	if !copyOK {
		w.Violate("C20", "private-copies", "readslices-stub", "the slices returned by the ReadSlices stub are not private copies")
	}
	for i, g := range gots {
		if i >= len(exp) {
			w.Violate("C20", "exchange-script", "surplus", "the exchange delivered %d errors, the script has %d", len(gots), len(exp))
			break
		}
		if g.err != exp[i].err {
			w.Violate("C20", "exchange-script", "order", "exchange entry %d is %v, the script says %v", i, g.err, exp[i].err)
		}
		if g.at < exp[i].delay {
			w.Violate("C20", "exchange-script", "early", "exchange entry %d arrived after %v, the script delays it by %v", i, g.at, exp[i].delay)
		}
	}
	if len(gots) < len(exp) {
		w.Violate("C20", "exchange-script", "missing", "the exchange delivered %d of %d scripted errors although nothing was left to run", len(gots), len(exp))
	}
	if endOpen && closedAt >= 0 {
		w.Violate("C20", "exchange-script", "closed", "the script ends in ErrClosed or an indefinite block, yet the exchange channel was closed")
	}
	if !endOpen && closedAt < 0 {
		w.Violate("C20", "exchange-script", "not-closed", "the exchange channel was not closed after the script ended although nothing was left to run")
	}
	if !endOpen && closedAt >= 0 && closedAt < cum {
		w.Violate("C20", "exchange-script", "closed-early", "the exchange channel closed after %v, the script takes %v", closedAt, cum)
	}
	if cum > 0 {
		w.Probe("exchange_delay_scripted")
	}
	res.Summary = fmt.Sprintf("stubs: script of %d entries, %d delivered, closed at %v, open end %v", len(script), len(gots), closedAt, endOpen)
	res.Touched = len(script) > 0
	res.Faultless = true
}

func init() {
	register("C20",
		Family{Name: "publish-mock", Weight: 2, Run: famC20Publish},
		Family{Name: "subscribe-mock", Weight: 2, Run: famC20Subscribe},
		Family{Name: "stubs", Weight: 1, Run: famC20Stubs})
}
