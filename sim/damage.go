package sim

import (
	"bytes"
	"fmt"
	"sort"
	"strings"
)

// Damage to a frozen disk image between a stop and the next AdoptSession
// (C15, C16), and damage to what a Load returns (C15).

type DamageRec struct {
	Key    uint
	Kind   string // alter, truncate, remove, stray
	Pos    int
	Val    byte
	Len    int
	Class  string // publish, pubrel, marker, clientid, stray
	Before []byte
}

func recClass(key uint, v []byte) string {
	switch {
	case key == 0:
		return "clientid"
	case key&(1<<16) != 0:
		return "marker"
	}
	if pkt, _, _, ok := StoredPacket(v); ok && len(pkt) > 0 {
		switch pkt[0] >> 4 {
		case PUBLISH:
			return "publish"
		case PUBREL:
			return "pubrel"
		}
	}
	return "other"
}

// fnv1a32 per the documented record layout (independent of the library).
func fnv1a32(b []byte) uint32 {
	h := uint32(2166136261)
	for _, c := range b {
		h ^= uint32(c)
		h *= 16777619
	}
	return h
}

// EncodeRecord builds a stored value in the documented layout.
func EncodeRecord(packet []byte, seq uint64) []byte {
	v := append([]byte{}, packet...)
	for i := 0; i < 8; i++ {
		v = append(v, byte(seq>>(8*i)))
	}
	s := fnv1a32(v)
	return append(v, byte(s>>24), byte(s>>16), byte(s>>8), byte(s))
}

// RecordIntact checks a stored value against the documented layout.
func RecordIntact(v []byte) bool {
	if len(v) < 12 {
		return false
	}
	s := fnv1a32(v[:len(v)-4])
	return v[len(v)-4] == byte(s>>24) && v[len(v)-3] == byte(s>>16) && v[len(v)-2] == byte(s>>8) && v[len(v)-1] == byte(s)
}

func (f *Flow) applyDamage(d DamageRec) {
	w := f.W
	img := w.Disk.M
	d.Before = append([]byte{}, img[d.Key]...)
	d.Class = recClass(d.Key, d.Before)
	switch d.Kind {
	case "alter":
		v := append([]byte{}, img[d.Key]...)
		v[d.Pos] = d.Val
		img[d.Key] = v
	case "truncate":
		img[d.Key] = append([]byte{}, img[d.Key][:d.Len]...)
	case "remove":
		delete(img, d.Key)
	case "stray":
		d.Class = "stray"
		img[d.Key] = d.Before // set by caller via Before
	}
	f.Damage = append(f.Damage, d)
	f.DamagedGen[w.Gen+1] = true
	w.Faults["damage_"+d.Kind+"_"+d.Class]++
	w.Ev("damage", int(d.Key), "record %#x (%s): %s pos=%d val=%#02x len=%d", d.Key, d.Class, d.Kind, d.Pos, d.Val, d.Len)
}

// drawDamage picks up to n damages of records present in the image.
func (f *Flow) drawDamage(n int, classes map[string]bool) {
	w := f.W
	for i := 0; i < n; i++ {
		keys := w.Disk.SortedKeys()
		var cand []uint
		for _, k := range keys {
			hit := false
			for _, d := range f.Damage {
				if d.Key == k {
					hit = true // one damage per record
				}
			}
			if !hit && (classes == nil || classes[recClass(k, w.Disk.M[k])]) {
				cand = append(cand, k)
			}
		}
		if len(cand) == 0 {
			return
		}
		// the client identifier record is one of few records in most
		// images; keep its share low, its consequence is known (F18)
		ws := make([]int, len(cand))
		for i, k := range cand {
			ws[i] = 10
			if k == 0 {
				ws[i] = 1
			}
		}
		k := cand[w.Tape.Pick("dmg-key", ws)]
		v := w.Disk.M[k]
		switch w.Tape.Draw("dmg-kind", 3) {
		case 0:
			if len(v) == 0 {
				continue
			}
			pos := w.Tape.Draw("dmg-pos", len(v))
			val := byte(int(v[pos]) + 1 + w.Tape.Draw("dmg-val", 255))
			f.applyDamage(DamageRec{Key: k, Kind: "alter", Pos: pos, Val: val})
		case 1:
			if len(v) == 0 {
				continue
			}
			f.applyDamage(DamageRec{Key: k, Kind: "truncate", Len: w.Tape.Draw("dmg-len", len(v))})
		case 2:
			f.applyDamage(DamageRec{Key: k, Kind: "remove"})
		}
	}
}

// markerDamageOnly tells whether every damage of this run altered or truncated
// (to at least one byte) an inbound reception record and left the key in place.
func (f *Flow) markerDamageOnly() bool {
	for _, d := range f.Damage {
		if d.Class != "marker" || !(d.Kind == "alter" || (d.Kind == "truncate" && d.Len > 0)) {
			return false
		}
	}
	return true
}

// damageMarkers alters or truncates up to n reception records of the image;
// the keys stay.
func (f *Flow) damageMarkers(n int) {
	w := f.W
	var cand []uint
	for _, k := range w.Disk.SortedKeys() {
		if recClass(k, w.Disk.M[k]) == "marker" && len(w.Disk.M[k]) > 1 {
			cand = append(cand, k)
		}
	}
	for i := 0; i < n && len(cand) > 0; i++ {
		j := w.Tape.Draw("mdmg-key", len(cand))
		k := cand[j]
		cand = append(cand[:j], cand[j+1:]...)
		v := w.Disk.M[k]
		if w.Tape.Flip("mdmg-truncate", 400) {
			f.applyDamage(DamageRec{Key: k, Kind: "truncate", Len: 1 + w.Tape.Draw("mdmg-len", len(v)-1)})
		} else {
			pos := w.Tape.Draw("mdmg-pos", len(v))
			f.applyDamage(DamageRec{Key: k, Kind: "alter", Pos: pos, Val: byte(int(v[pos]) + 1 + w.Tape.Draw("mdmg-val", 255))})
		}
	}
}

// addStray puts entries into the store that no session wrote.
func (f *Flow) addStray(n int) {
	w := f.W
	for i := 0; i < n; i++ {
		var key uint
		switch w.Tape.Draw("stray-space", 4) {
		case 0:
			key = uint(1 + w.Tape.Draw("stray-key", 0x3fff)) // below every identifier space
		case 1:
			key = uint(0x4000 + w.Tape.Draw("stray-key", 0x4000)) // (un)subscribe spaces
		case 2:
			key = uint(0x18000 + w.Tape.Draw("stray-key", 0x8000)) // remote flag with an own-space identifier
		case 3:
			key = uint(0x10001 + w.Tape.Draw("stray-key", 0x3fff))
		}
		if _, ok := w.Disk.M[key]; ok {
			continue
		}
		var val []byte
		switch w.Tape.Draw("stray-val", 3) {
		case 0:
			val = []byte("leftover of something else")
		case 1:
			val = []byte{}
		case 2:
			val = EncodeRecord([]byte{0x40, 2, 0, 1}, uint64(w.Tape.Draw("stray-seq", 1000)))
		}
		d := DamageRec{Key: key, Kind: "stray", Before: val}
		w.Disk.M[key] = val
		f.applyDamage(d)
	}
}

// damageCases enumerates every single-byte alteration and every truncation of
// every outbound record of the image, in a fixed order.
func (f *Flow) damageCases() []DamageRec {
	w := f.W
	var cases []DamageRec
	for _, k := range w.Disk.SortedKeys() {
		v := w.Disk.M[k]
		cl := recClass(k, v)
		if cl != "publish" && cl != "pubrel" && cl != "clientid" {
			continue
		}
		for pos := range v {
			for d := 1; d < 256; d++ {
				cases = append(cases, DamageRec{Key: k, Kind: "alter", Pos: pos, Val: v[pos] + byte(d)})
			}
		}
		for l := 0; l < len(v); l++ {
			cases = append(cases, DamageRec{Key: k, Kind: "truncate", Len: l})
		}
	}
	return cases
}

// ---- C15 ----

type monC15 struct {
	NopMonitor
	saved    map[uint][][]byte // key -> every packet genuinely handed to Save
	imageGen int               // incarnation whose adopted image was compared
}

// Step (FileSystem store): what an incarnation finds under a key is something
// that was saved under that key. Savers of different keys overlap inside the
// file system; no record may end up under another key's name.
func (m *monC15) Step(f *Flow) {
	w := f.W
	if f.FS == nil || w.Gen < 2 || m.imageGen == w.Gen || f.C == nil || len(f.Damage) != 0 {
		return
	}
	m.imageGen = w.Gen
	for _, key := range w.Disk.SortedKeys() {
		if key == 0 || key > 0xffff {
			continue
		}
		pkt, _, _, ok := StoredPacket(w.Disk.M[key])
		if !ok {
			continue
		}
		genuine := false
		for _, sv := range m.saved[key] {
			if bytes.Equal(sv, pkt) {
				genuine = true
			}
		}
		if !genuine && len(m.saved[key]) > 0 {
			w.Violate("C15", "round-trip", "foreign-record", "after the restart key %#x holds a %d-byte packet beginning % x that was never saved under that key (%d values were)", key, len(pkt), head(pkt, 6), len(m.saved[key]))
			return
		}
	}
	w.Probe("adopted_image_compared")
}

func head(b []byte, n int) []byte {
	if len(b) > n {
		return b[:n]
	}
	return b
}

// OnSave checks the documented layout of every value the client stores.
func (m *monC15) OnSave(f *Flow, op *DiskOp) {
	w := f.W
	if m.saved == nil {
		m.saved = map[uint][][]byte{}
	}
	v := op.Val
	if !RecordIntact(v) {
		w.Violate("C15", "layout", "checksum", "value saved under %#x is not packet||seq(8,LE)||FNV-1a(4,BE): % x", op.Key, tail(v, 24))
		return
	}
	pkt, seq, _, _ := StoredPacket(v)
	m.saved[op.Key] = append(m.saved[op.Key], append([]byte{}, pkt...))
	if op.Key != 0 {
		if seq == 0 {
			w.Violate("C15", "layout", "sequence-zero", "record %#x saved with storage sequence number 0", op.Key)
		}
		// new records must order after every record in the store
		// (within one kind of record: those are what AdoptSession orders;
		// Saves of different kinds may overtake each other)
		// (outbound records only: reception markers are looked up by key
		// and never ordered, and AdoptSession does not count them when it
		// continues the sequence)
		for k, ov := range w.Disk.M {
			if op.Key > 0xffff || k > 0xffff {
				continue
			}
			if k == op.Key || k == 0 || k&^0x3fff != op.Key&^0x3fff || recClass(k, ov) != recClass(op.Key, v) {
				continue
			}
			if _, os, _, ok := StoredPacket(ov); ok && RecordIntact(ov) && os >= seq && !op.Interrupted {
				w.Violate("C15", "layout", "sequence-order", "record %#x saved with storage sequence number %d while record %#x in the store has %d", op.Key, seq, k, os)
			}
		}
	}
	w.Probe("record_layout_checked")
}

func tail(b []byte, n int) []byte {
	if len(b) > n {
		return b[len(b)-n:]
	}
	return b
}

func (m *monC15) Wire(f *Flow, c *Conn, p *WirePkt) {
	w := f.W
	if len(f.Damage) == 0 && f.LoadDamage == 0 {
		return
	}
	switch p.Type {
	case CONNECT:
		altered := f.LoadDamage > 0
		for _, d := range f.Damage {
			if d.Class == "clientid" && d.Kind != "remove" {
				altered = true
			}
		}
		if p.ClientID != f.O.ClientID && altered {
			w.Violate("C15", "damaged-content-used", "client-identifier", "CONNECT carries client identifier %q, the session was initialised with %q", p.ClientID, f.O.ClientID)
		}
	case PUBLISH:
		if p.QoS == 0 {
			return
		}
		key := uint(p.ID)
		raw := append([]byte{}, p.Raw...)
		raw[0] &^= 8 // DUP aside
		ok := false
		for _, s := range m.saved[key] {
			if bytes.Equal(s, raw) {
				ok = true
			}
		}
		if !ok {
			w.Violate("C15", "damaged-content-used", "publish", "conn%d carries %s which equals no packet ever saved under %#x", c.id, p.String(), key)
		}
	case PUBREL:
		key := uint(p.ID)
		ok := false
		for _, s := range m.saved[key] {
			if bytes.Equal(s, p.Raw) {
				ok = true
			}
		}
		if !ok {
			w.Violate("C15", "damaged-content-used", "pubrel", "conn%d carries %s which equals no packet ever saved under %#x", c.id, p.String(), key)
		}
	}
}

func (m *monC15) Final(f *Flow) {
	w := f.W
	if len(f.Damage) == 0 {
		return
	}
	// a record damaged in a single byte, or shorter than 12 bytes, must be
	// reported and must not be adopted
	for _, d := range f.Damage {
		if d.Class == "clientid" && (d.Kind == "alter" || (d.Kind == "truncate" && d.Len < 12)) {
			// never used as a client identifier: no CONNECT at all may be
			// written (Wire flags a wrong identifier), and it surfaces as
			// an error
			reported := f.AdoptFatal != nil
			for _, e := range f.ReaderErrs {
				if strings.Contains(e.Error(), "unavailable") || strings.Contains(e.Error(), "corrupt") || strings.Contains(e.Error(), "truncated") {
					reported = true
				}
			}
			for _, warn := range f.AdoptWarn[f.damageGen()] {
				if containsKey(warn.Error(), 0) {
					reported = true
				}
			}
			connects := 0
			for _, c := range w.AllConns {
				if c.Gen >= f.damageGen() && len(c.Pkts) > 0 {
					connects++
				}
			}
			if !reported && w.Inconcl == "" {
				w.Violate("C15", "damage-undetected", "client-identifier-"+d.Kind, "the client-identifier record was damaged (%s pos=%d len=%d) and neither AdoptSession nor ReadSlices reported it; %d CONNECT packets were written", d.Kind, d.Pos, d.Len, connects)
			} else {
				w.Probe("damage_reported")
			}
			continue
		}
		if d.Class != "publish" && d.Class != "pubrel" {
			continue
		}
		must := d.Kind == "alter" || (d.Kind == "truncate" && d.Len < 12)
		if !must {
			continue
		}
		reported := false
		for _, warn := range f.AdoptWarn[f.damageGen()] {
			if containsKey(warn.Error(), d.Key) {
				reported = true
			}
		}
		if f.AdoptFatal != nil {
			reported = true
		}
		if !reported {
			w.Violate("C15", "damage-undetected", d.Kind, "record %#x was damaged (%s pos=%d val=%#02x len=%d) and AdoptSession reported nothing about it (warnings: %v)", d.Key, d.Kind, d.Pos, d.Val, d.Len, f.AdoptWarn[f.damageGen()])
		} else {
			w.Probe("damage_reported")
		}
	}
}

func (f *Flow) damageGen() int {
	gens := make([]int, 0, len(f.DamagedGen))
	for g := range f.DamagedGen {
		gens = append(gens, g)
	}
	sort.Ints(gens)
	if len(gens) == 0 {
		return 0
	}
	return gens[len(gens)-1]
}

func containsKey(s string, key uint) bool {
	return bytes.Contains([]byte(s), []byte(fmt.Sprintf("%#x", key)))
}

// ---- C16 ----

type monC16 struct {
	NopMonitor
}

func (m *monC16) Final(f *Flow) {
	w := f.W
	if len(f.Damage) == 0 && !(f.O.FSStore && w.Gen > 1) {
		return // (leftovers of a killed Save on the FileSystem store are damage, too)
	}
	if f.AdoptFatal != nil {
		w.Violate("C16", "adopt-fatal", warnKind(f.AdoptFatal), "AdoptSession failed on a damaged Persistence: %v (damage: %s)", f.AdoptFatal, f.damageSummary())
		return
	}
	g := f.damageGen()
	// every unusable record is reported
	unusable := 0
	for _, d := range f.Damage {
		if (d.Class == "publish" || d.Class == "pubrel") && (d.Kind == "alter" || d.Kind == "truncate") {
			unusable++
		}
	}
	// (an adoption that was stopped before it returned reports nothing: the
	// warnings of every adoption since the damage count)
	var warns []error
	for gen := g; gen <= w.Gen; gen++ {
		warns = append(warns, f.AdoptWarn[gen]...)
	}
	if len(warns) < unusable {
		w.Violate("C16", "missing-warning", fmt.Sprintf("%d-of-%d", len(warns), unusable), "%d records were made unusable but AdoptSession returned %d warnings: %v (damage: %s)", unusable, len(warns), warns, f.damageSummary())
	}
	if w.Inconcl != "" || f.QStartStep == 0 {
		return
	}
	if !f.everOnline(g) && !f.goalReached() {
		w.Violate("C16", "never-connects", f.stuckCause(), "the client adopted from the damaged Persistence never came online against a conforming, reachable broker within %v and %d steps; last ReadSlices errors: %v (damage: %s)", f.S.Now()-f.QStartTime, w.Steps-f.QStartStep, lastErrs(f.ReaderErrs, 2), f.damageSummary())
		return
	}
	if !f.goalReached() {
		w.Violate("C16", "does-not-complete", f.stuckCause(), "the client adopted from the damaged Persistence came online but did not complete its transfers within %v and %d steps; last ReadSlices errors: %v (damage: %s)", f.S.Now()-f.QStartTime, w.Steps-f.QStartStep, lastErrs(f.ReaderErrs, 2), f.damageSummary())
		return
	}
	w.Probe("damaged_session_recovered")
}

func (f *Flow) everOnline(gen int) bool {
	for _, c := range f.W.AllConns {
		if c.Gen >= gen && c.id == f.OnlineConn {
			return true
		}
	}
	for _, c := range f.W.AllConns {
		if c.Gen >= gen && c.ConnackStep != 0 && len(c.Pkts) > 1 {
			return true
		}
	}
	return false
}

// stuckCause names what ReadSlices kept reporting (a stable discriminator
// that points at the cause rather than at the combination of damages).
func (f *Flow) stuckCause() string {
	n := 0
	for i := len(f.ReaderErrs) - 1; i >= 0 && n < 60; i-- {
		n++
		e := f.ReaderErrs[i].Error()
		switch {
		case strings.Contains(e, "record 0x0 unavailable"):
			return "client-identifier-record-unusable"
		case strings.Contains(e, "identifier rejected"):
			return "client-identifier-record-missing"
		case strings.Contains(e, "gone missing"):
			return "pending-key-gone-missing"
		case strings.Contains(e, "unavailable;") || strings.HasSuffix(e, "unavailable"):
			return "record-unusable"
		case strings.Contains(e, "protocol violation"):
			return "protocol-reset"
		}
	}
	if n == 0 {
		return "no-error" + f.stuckWhere()
	}
	return "other-error"
}

func (f *Flow) damageSummary() string {
	s := ""
	for _, d := range f.Damage {
		s += fmt.Sprintf("[%#x %s %s pos=%d len=%d] ", d.Key, d.Class, d.Kind, d.Pos, d.Len)
	}
	return s
}

// damageClasses names the most consequential damaged record class and how it
// was damaged (a coarse, stable discriminator for signatures).
func (f *Flow) damageClasses() string {
	for _, cl := range []string{"clientid", "marker", "pubrel", "publish", "stray"} {
		kinds := map[string]bool{}
		for _, d := range f.Damage {
			if d.Class == cl {
				kinds[d.Kind] = true
			}
		}
		if len(kinds) == 0 {
			continue
		}
		var l []string
		for k := range kinds {
			l = append(l, k)
		}
		sort.Strings(l)
		s := cl
		for _, k := range l {
			s += "-" + k
		}
		return s
	}
	return "none"
}
