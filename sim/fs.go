package sim

// fsOp is a parked call of the simulated os (see simfs.go).
type fsOp struct {
	err error
	n   int
	run func()
}

func (s *Sim) fsAction(p *park) Action {
	op := p.op.(*fsOp)
	return Action{Name: "fs", Weight: 10, p: p, Run: func() {
		if op.run != nil {
			op.run()
		}
		if !s.Stopped {
			s.unpark(p)
		}
	}}
}
