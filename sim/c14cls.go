package sim

import (
	"context"
	"errors"
	"fmt"
	"io"
	"net"
	"strings"

	"github.com/pascaldekloe/mqtt"
)

// C14, classifier clause: IsDeny / IsEnd / Backoff over arbitrarily wrapped
// and joined errors. Pure input generation (no schedule or fault decides it):
// random error trees over the library's sentinels, compared with errors.Is.

type wrapErr struct {
	msg string
	err error
}

func (w *wrapErr) Error() string { return w.msg + ": " + w.err.Error() }
func (w *wrapErr) Unwrap() error { return w.err }

func famC14Classifiers(w *World, spec *RunSpec, res *RunResult) {
	t := w.Tape
	cfg := &mqtt.Config{Dialer: func(context.Context) (net.Conn, error) { return nil, errors.New("no dial") }}
	c, err := mqtt.VolatileSession("classifier", cfg)
	if err != nil {
		w.Violate("HARNESS", "setup", "volatile", "%v", err)
		return
	}
	// deny sentinels, obtained from the API
	var deny []error
	add := func(e error) {
		for u := e; u != nil; u = errors.Unwrap(u) {
			if errors.Unwrap(u) == nil {
				deny = append(deny, u)
			}
		}
	}
	add(c.Publish(nil, nil, ""))
	add(c.Publish(nil, nil, "\xff"))
	add(c.Publish(nil, nil, "a\x00"))
	add(c.Publish(nil, nil, strings.Repeat("x", 65536)))
	add(c.Subscribe(nil))
	add(c.Unsubscribe(nil))
	end := []error{mqtt.ErrClosed, mqtt.ErrCanceled, mqtt.ErrAbandoned}
	other := []error{mqtt.ErrDown, mqtt.ErrMax, mqtt.ErrSubmit, mqtt.ErrBreak, io.EOF, io.ErrClosedPipe, errors.New("custom"), mqtt.SubscribeError{"a/b"}}
	all := append(append(append([]error{}, deny...), end...), other...)

	var gen func(depth int) error
	gen = func(depth int) error {
		k := t.Pick("ekind", []int{5, 3, 2, 2, 2})
		if depth <= 0 {
			k = 0
		}
		switch k {
		case 0:
			return all[t.Draw("eleaf", len(all))]
		case 1:
			return fmt.Errorf("%w; context", gen(depth-1))
		case 2:
			return &wrapErr{"wrapped", gen(depth - 1)}
		case 3:
			return fmt.Errorf("%w AND %w", gen(depth-1), gen(depth-1))
		default:
			n := 2 + t.Draw("ejoin", 3)
			var l []error
			for i := 0; i < n; i++ {
				l = append(l, gen(depth-1))
			}
			return errors.Join(l...)
		}
	}
	// inside a bubble: Backoff(ErrMax) starts a timer whose callback must not
	// outlive the run
	live := 1
	RunBubble(w, func(s *Sim) {
		s.Done = func() bool { return live == 0 }
		s.Go("classify", func() {
			defer func() { live-- }()
			for i := 0; i < 40; i++ {
				e := gen(1 + t.Draw("edepth", 4))
				is := func() string {
					var b strings.Builder
					for _, s := range all {
						if errors.Is(e, s) {
							b.WriteByte('1')
						} else {
							b.WriteByte('0')
						}
					}
					return b.String()
				}
				before := is()
				wantDeny, wantEnd := false, false
				for _, s := range deny {
					if errors.Is(e, s) {
						wantDeny = true
					}
				}
				for _, s := range end {
					if errors.Is(e, s) {
						wantEnd = true
					}
				}
				var se mqtt.SubscribeError
				isSE := errors.As(e, &se)
				gotDeny, gotEnd := mqtt.IsDeny(e), mqtt.IsEnd(e)
				ch := c.Backoff(e)
				if gotDeny != wantDeny {
					w.Violate("C14", "classifier", "IsDeny", "IsDeny(%q) = %v, errors.Is over the deny sentinels says %v", trunc(e.Error(), 160), gotDeny, wantDeny)
				}
				if gotEnd != wantEnd {
					w.Violate("C14", "classifier", "IsEnd", "IsEnd(%q) = %v, errors.Is over ErrClosed/ErrCanceled/ErrAbandoned says %v", trunc(e.Error(), 160), gotEnd, wantEnd)
				}
				// (an artificial join of ErrMax with a SubscribeError has no single class)
				mixed := isSE && !wantDeny && !wantEnd && errors.Is(e, mqtt.ErrMax)
				if permanent := wantDeny || wantEnd || isSE; (ch == nil) != permanent && !mixed {
					w.Violate("C14", "classifier", "Backoff", "Backoff(%q) nil=%v, the error is permanent=%v", trunc(e.Error(), 160), ch == nil, permanent)
				}
				if after := is(); after != before {
					w.Violate("C14", "classifier", "mutates-argument", "classifying %q changed what errors.Is reports for it (%s -> %s): the classifier wrote into the error's own slice", trunc(e.Error(), 160), before, after)
				}
				if wantDeny || wantEnd {
					w.Probe("classified_permanent")
				}
			}
		})
	})
	c.Close()
	res.Touched = true
	res.Faultless = true
	res.Summary = "classifier trees: 40 per run over the library's sentinels"
}

func init() {
	register("C14", Family{Name: "classifiers", Weight: 1, Run: famC14Classifiers})
}
