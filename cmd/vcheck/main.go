// Command vcheck is the driver behind /verif/check: it regenerates the build
// overlay from /repo's working tree, builds the simulation binary, runs the
// property's workload families on worker processes, aggregates, classifies
// violations against known_findings.json and rewrites the evidence file.
package main

import (
	"bytes"
	"encoding/json"
	"fmt"
	"os"
	"os/exec"
	"path/filepath"
	"sort"
	"strconv"
	"strings"
	"sync"
	"syscall"
	"time"
)

const (
	verifDir = "/verif"
	repoDir  = "/repo"
	goBin    = "go1.26.8"
)

func goroot() string {
	out, err := exec.Command(goBin, "env", "GOROOT").Output()
	if err != nil {
		return "/opt/veriftools/go1.26.8"
	}
	return strings.TrimSpace(string(out))
}

func env() []string {
	e := os.Environ()
	e = append(e, "GOFLAGS=-mod=mod", "GOPROXY=off", "GOSUMDB=off", "GOTOOLCHAIN=local", "GODEBUG=asyncpreemptoff=1")
	return e
}

func die(code int, format string, a ...any) {
	fmt.Fprintf(os.Stderr, "vcheck: "+format+"\n", a...)
	os.Exit(code)
}

type known struct {
	Findings []struct {
		Property  string `json:"property"`
		Signature string `json:"signature"`
		What      string `json:"what"`
	} `json:"findings"`
	Fixed []string `json:"fixed"`
}

func loadKnown() known {
	var k known
	b, err := os.ReadFile(filepath.Join(verifDir, "known_findings.json"))
	if err == nil {
		if err := json.Unmarshal(b, &k); err != nil {
			die(2, "known_findings.json: %v", err)
		}
	}
	return k
}

// build prepares scratch/sim.test from the current tree.
func build(scratch string) string {
	mk := filepath.Join(verifDir, "bin", "mkoverlay")
	stale := false
	if bi, err := os.Stat(mk); err == nil {
		if si, err := os.Stat(filepath.Join(verifDir, "tools", "mkoverlay", "main.go")); err == nil && si.ModTime().After(bi.ModTime()) {
			stale = true
		}
	}
	if _, err := os.Stat(mk); err != nil || stale {
		c := exec.Command(goBin, "build", "-o", mk, ".")
		c.Dir = filepath.Join(verifDir, "tools", "mkoverlay")
		c.Env = env()
		if out, err := c.CombinedOutput(); err != nil {
			die(2, "building mkoverlay: %v\n%s", err, out)
		}
	}
	c := exec.Command(mk, "-repo", repoDir, "-verif", verifDir, "-out", scratch, "-goroot", goroot())
	c.Env = env()
	if out, err := c.CombinedOutput(); err != nil {
		die(2, "mkoverlay: %v\n%s", err, out)
	}
	// go.sum of the repository, if any
	if b, err := os.ReadFile(filepath.Join(repoDir, "go.sum")); err == nil {
		os.WriteFile(filepath.Join(verifDir, "sim", "go.sum"), b, 0o644)
	}
	bin := filepath.Join(scratch, "sim.test")
	c = exec.Command(goBin, "test", "-c", "-vet=off", "-overlay", filepath.Join(scratch, "overlay.json"), "-o", bin, ".")
	c.Dir = filepath.Join(verifDir, "sim")
	c.Env = env()
	if out, err := c.CombinedOutput(); err != nil {
		die(2, "building the simulation binary from %s failed (exit 2, not a violation):\n%s", repoDir, out)
	}
	return bin
}

type foundViolation struct {
	V struct {
		Prop   string `json:"prop"`
		Oracle string `json:"oracle"`
		Sig    string `json:"sig"`
		Detail string `json:"detail"`
		Step   int    `json:"step"`
	} `json:"violation"`
	Replay   string `json:"replay"`
	Seed     uint64 `json:"seed"`
	TapeLen  int    `json:"tape_len"`
	OrigLen  int    `json:"orig_tape_len"`
	Confirms bool   `json:"replay_confirmed"`
}

type batchResult struct {
	Prop        string           `json:"prop"`
	Worker      int              `json:"worker"`
	Runs        int              `json:"runs"`
	Steps       int64            `json:"steps"`
	SimTimeNS   int64            `json:"sim_time_ns"`
	SimTimeS    float64          `json:"sim_time_s"`
	WallS       float64          `json:"wall_s"`
	Faults      map[string]int   `json:"faults"`
	Probes      map[string]int   `json:"probes"`
	Inconcl     map[string]int   `json:"inconclusive"`
	Notes       map[string]int   `json:"notes"`
	PerFam      map[string]int   `json:"per_family"`
	ActHashes   []uint64         `json:"act_hashes"`
	NontrivHash []uint64         `json:"nontrivial_hashes"`
	States      []uint64         `json:"states"`
	Found       []foundViolation `json:"found"`
	Samples     []string         `json:"samples"`
	SweepCases  int              `json:"sweep_cases"`
	Exhaustive  map[string]int   `json:"exhaustive"`
}

func main() {
	if len(os.Args) < 3 {
		die(2, "usage: check <ID> quick|thorough | check replay <file>")
	}
	if os.Args[1] == "replay" {
		replay(os.Args[2])
		return
	}
	prop, tier := os.Args[1], os.Args[2]
	if t := os.Getenv("VERIF_TIER"); t == "quick" || t == "thorough" {
		tier = t
	}
	meta, ok := props[prop]
	if !ok {
		die(2, "unknown property %s", prop)
	}
	seed := uint64(1)
	if s := os.Getenv("VERIF_SEED"); s != "" {
		v, err := strconv.ParseUint(s, 10, 64)
		if err != nil {
			iv, err2 := strconv.ParseInt(s, 10, 64)
			if err2 != nil {
				die(2, "VERIF_SEED=%q is not an integer", s)
			}
			v = uint64(iv)
		}
		seed = v
	}
	budget := meta.QuickS
	if tier == "thorough" {
		budget = meta.ThoroughS
	}
	if s := os.Getenv("VERIF_BUDGET_S"); s != "" {
		if v, err := strconv.ParseFloat(s, 64); err == nil {
			budget = v
		}
	}
	workers := 16
	if s := os.Getenv("VERIF_WORKERS"); s != "" {
		if v, err := strconv.Atoi(s); err == nil && v > 0 {
			workers = v
		}
	}
	maxRuns := 0
	if s := os.Getenv("VERIF_MAX_RUNS"); s != "" {
		maxRuns, _ = strconv.Atoi(s)
	}

	start := time.Now()
	base := "/dev/shm"
	if _, err := os.Stat(base); err != nil {
		base = os.TempDir()
	}
	scratch, err := os.MkdirTemp(base, "verif-"+prop+"-")
	if err != nil {
		die(2, "%v", err)
	}
	defer os.RemoveAll(scratch)
	fmt.Printf("seed=%d property=%s tier=%s workers=%d budget=%.0fs\n", seed, prop, tier, workers, budget)
	bin := build(scratch)
	buildS := time.Since(start).Seconds()

	replayDir := filepath.Join(verifDir, "replays")
	os.MkdirAll(replayDir, 0o755)
	results := make([]*batchResult, workers)
	crashes := make([]string, workers)
	var wg sync.WaitGroup
	for i := 0; i < workers; i++ {
		wg.Add(1)
		go func(i int) {
			defer wg.Done()
			out := filepath.Join(scratch, fmt.Sprintf("w%d.json", i))
			last := filepath.Join(scratch, fmt.Sprintf("w%d.last", i))
			bs := map[string]any{"prop": prop, "seed_base": seed, "worker": i, "workers": workers, "budget_s": budget,
				"max_runs": maxRuns, "thorough": tier == "thorough", "out": out, "replay_dir": replayDir, "last_file": last}
			if fams := os.Getenv("VERIF_FAMS"); fams != "" {
				bs["fams"] = strings.Split(fams, ",")
			}
			js, _ := json.Marshal(bs)
			c := exec.Command(bin, "-test.run", "^TestWorker$", "-test.timeout", "0")
			c.Env = append(env(), "VERIF_MODE=batch", "VERIF_BATCH="+string(js), "GOMAXPROCS=1")
			var buf bytes.Buffer
			c.Stdout = &buf
			c.Stderr = &buf
			done := make(chan error, 1)
			if err := c.Start(); err != nil {
				crashes[i] = "start: " + err.Error()
				return
			}
			go func() { done <- c.Wait() }()
			limit := time.Duration((budget*3 + 180) * float64(time.Second))
			select {
			case err = <-done:
			case <-time.After(limit):
				c.Process.Signal(syscall.SIGQUIT) // the runtime dumps all stacks
				time.Sleep(3 * time.Second)
				c.Process.Kill()
				<-done
				lastSpec, _ := os.ReadFile(last)
				os.WriteFile(filepath.Join(replayDir, fmt.Sprintf("hang-%s-w%d.json", prop, i)), lastSpec, 0o644)
				crashes[i] = fmt.Sprintf("watchdog: worker exceeded %v; last run saved as replays/hang-%s-w%d.json\n%s", limit, prop, i, tail(buf.String(), 20000))
				return
			}
			b, rerr := os.ReadFile(out)
			if rerr != nil {
				lastSpec, _ := os.ReadFile(last)
				crashes[i] = fmt.Sprintf("worker died (%v); last run %s\n%s", err, lastSpec, tail(buf.String(), 12000))
				return
			}
			var r batchResult
			if jerr := json.Unmarshal(b, &r); jerr != nil {
				crashes[i] = "bad worker output: " + jerr.Error()
				return
			}
			results[i] = &r
		}(i)
	}
	wg.Wait()

	agg := batchResult{Faults: map[string]int{}, Probes: map[string]int{}, Inconcl: map[string]int{}, Notes: map[string]int{}, PerFam: map[string]int{}, Exhaustive: map[string]int{}}
	acts, nontriv, states := map[uint64]struct{}{}, map[uint64]struct{}{}, map[uint64]struct{}{}
	var found []foundViolation
	harnessTrouble := false
	for i, r := range results {
		if r == nil {
			if crashes[i] != "" {
				// a crash whose trace is inside the library is a finding of its own
				if fv, ok := classifyCrash(prop, crashes[i], scratch, replayDir); ok {
					found = append(found, fv)
				} else {
					fmt.Fprintf(os.Stderr, "vcheck: worker %d: %s\n", i, crashes[i])
					harnessTrouble = true
				}
			}
			continue
		}
		agg.Runs += r.Runs
		agg.Steps += r.Steps
		agg.SimTimeNS += r.SimTimeNS
		agg.SimTimeS += r.SimTimeS
		agg.SweepCases += r.SweepCases
		for k, v := range r.Faults {
			agg.Faults[k] += v
		}
		for k, v := range r.Probes {
			agg.Probes[k] += v
		}
		for k, v := range r.Inconcl {
			agg.Inconcl[k] += v
		}
		for k, v := range r.Notes {
			agg.Notes[k] += v
		}
		for k, v := range r.PerFam {
			agg.PerFam[k] += v
		}
		for k, v := range r.Exhaustive {
			agg.Exhaustive[k] += v
		}
		for _, h := range r.ActHashes {
			acts[h] = struct{}{}
		}
		for _, h := range r.NontrivHash {
			nontriv[h] = struct{}{}
		}
		for _, h := range r.States {
			states[h] = struct{}{}
		}
		found = append(found, r.Found...)
		if len(agg.Samples) < 6 {
			agg.Samples = append(agg.Samples, r.Samples...)
		}
	}
	wall := time.Since(start).Seconds()

	// classify
	kn := loadKnown()
	violations := 0
	knownSeen := map[string]bool{}
	var lines []string
	seenKey := map[string]bool{}
	for _, fv := range found {
		key := fv.V.Prop + "/" + fv.V.Oracle + "/" + fv.V.Sig
		if seenKey[key] {
			continue
		}
		seenKey[key] = true
		if fv.V.Prop == "HARNESS" {
			fmt.Fprintf(os.Stderr, "vcheck: harness fault: %s\n", fv.V.Detail)
			harnessTrouble = true
			continue
		}
		isKnown := false
		for _, k := range kn.Findings {
			if k.Property == prop && k.Signature == key {
				isKnown = true
				if !knownSeen[key] {
					knownSeen[key] = true
					lines = append(lines, fmt.Sprintf("KNOWN-FINDING: property=%s %s (%s) replay=%s", prop, k.What, key, fv.Replay))
				}
			}
		}
		if isKnown {
			continue
		}
		if !fv.Confirms {
			fmt.Fprintf(os.Stderr, "vcheck: violation %s found (seed %d) but its replay did not reproduce; treated as harness trouble: %s\n", key, fv.Seed, fv.V.Detail)
			harnessTrouble = true
			continue
		}
		violations++
		lines = append(lines, fmt.Sprintf("VIOLATION property=%s replay=%s", prop, fv.Replay))
		lines = append(lines, fmt.Sprintf("  signature=%s seed=%d tape=%d (from %d)\n  %s", key, fv.Seed, fv.TapeLen, fv.OrigLen, fv.V.Detail))
	}
	// listed findings that did not show up in this run are still announced
	for _, k := range kn.Findings {
		if k.Property == prop && !knownSeen[k.Signature] {
			lines = append(lines, fmt.Sprintf("KNOWN-FINDING: property=%s %s (%s) [not reached by this run's seeds]", prop, k.What, k.Signature))
		}
	}

	// evidence
	if agg.Runs > 0 {
		writeEvidence(prop, tier, seed, meta, &agg, len(acts), len(nontriv), len(states), wall, buildS, violations, workers)
	}
	fmt.Printf("runs=%d steps=%d sim_time=%.0fs distinct_interleavings=%d nontrivial=%d states=%d wall=%.1fs (build %.1fs)\n",
		agg.Runs, agg.Steps, agg.SimTimeS, len(acts), len(nontriv), len(states), wall, buildS)
	fmt.Printf("faults fired: %s\n", fmtMap(agg.Faults))
	fmt.Printf("probes: %s\n", fmtMap(agg.Probes))
	if len(agg.Inconcl) > 0 {
		fmt.Printf("inconclusive runs: %s\n", fmtMap(agg.Inconcl))
	}
	if len(agg.Notes) > 0 {
		fmt.Printf("notes (oracles of other properties that tripped; not decided here): %s\n", fmtMap(agg.Notes))
	}
	for _, p := range meta.Probes {
		if agg.Probes[p] == 0 && agg.Faults[p] == 0 {
			fmt.Printf("WARNING: probe %q stayed at zero in this run\n", p)
		}
	}
	for _, l := range lines {
		fmt.Println(l)
	}
	switch {
	case violations > 0:
		os.RemoveAll(scratch)
		os.Exit(1)
	case harnessTrouble || agg.Runs == 0:
		os.RemoveAll(scratch)
		os.Exit(2)
	}
}

func tail(s string, n int) string {
	if len(s) > n {
		return s[len(s)-n:]
	}
	return s
}

func fmtMap(m map[string]int) string {
	keys := make([]string, 0, len(m))
	for k := range m {
		keys = append(keys, k)
	}
	sort.Strings(keys)
	var b strings.Builder
	for _, k := range keys {
		fmt.Fprintf(&b, "%s=%d ", k, m[k])
	}
	return b.String()
}

// classifyCrash turns a worker that died from a panic inside the library into
// a violation with a replay file (the spec of the run in progress).
func classifyCrash(prop, msg, scratch, replayDir string) (foundViolation, bool) {
	var fv foundViolation
	if !strings.Contains(msg, "panic:") && !strings.Contains(msg, "fatal error:") {
		return fv, false
	}
	if strings.Contains(msg, "synctest channel from outside bubble") || strings.Contains(msg, "from outside bubble") {
		return fv, false // a goroutine of the harness escaped its bubble: harness trouble
	}
	if !strings.Contains(msg, "github.com/pascaldekloe/mqtt.") && !strings.Contains(msg, "github.com/pascaldekloe/mqtt/mqtttest.") {
		return fv, false
	}
	i := strings.Index(msg, "last run ")
	if i < 0 {
		return fv, false
	}
	rest := msg[i+len("last run "):]
	j := strings.Index(rest, "\n")
	if j < 0 {
		return fv, false
	}
	var spec map[string]any
	dec := json.NewDecoder(strings.NewReader(rest[:j]))
	dec.UseNumber() // seeds are 64-bit
	if err := dec.Decode(&spec); err != nil {
		return fv, false
	}
	what := "panic"
	if k := strings.Index(msg, "panic:"); k >= 0 {
		l := msg[k:]
		if e := strings.Index(l, "\n"); e > 0 {
			l = l[:e]
		}
		what = l
	}
	fv.V.Prop = prop
	fv.V.Oracle = "no-panic"
	fv.V.Sig = "process-crash"
	fv.V.Detail = "the library panicked on one of its own goroutines and killed the process: " + what
	rf := map[string]any{"property": prop, "spec": spec, "violation": fv.V, "crash": true, "trace": tail(msg, 4000)}
	b, _ := json.MarshalIndent(rf, "", " ")
	name := filepath.Join(replayDir, fmt.Sprintf("%s-crash-%v.json", prop, spec["seed"]))
	if err := os.WriteFile(name, b, 0o644); err != nil {
		return fv, false
	}
	fv.Replay = name
	fv.Confirms = true
	return fv, true
}

func replay(file string) {
	base := "/dev/shm"
	if _, err := os.Stat(base); err != nil {
		base = os.TempDir()
	}
	scratch, err := os.MkdirTemp(base, "verif-replay-")
	if err != nil {
		die(2, "%v", err)
	}
	defer os.RemoveAll(scratch)
	bin := build(scratch)
	abs, _ := filepath.Abs(file)
	c := exec.Command(bin, "-test.run", "^TestWorker$", "-test.timeout", "0")
	c.Env = append(env(), "VERIF_MODE=replay", "VERIF_REPLAY="+abs, "GOMAXPROCS=1")
	out, err := c.CombinedOutput()
	os.Stdout.Write(out)
	s := string(out)
	i := strings.LastIndex(s, "REPLAY-RESULT ")
	if i < 0 {
		// a crashing replay reproduces a crash finding
		if strings.Contains(s, "panic:") && strings.Contains(s, "github.com/pascaldekloe/mqtt") {
			fmt.Println("REPLAY: process crash reproduced")
			os.RemoveAll(scratch)
			os.Exit(1)
		}
		die(2, "replay produced no result: %v", err)
	}
	var r struct {
		Reproduced bool `json:"reproduced"`
		HashMatch  bool `json:"hash_match"`
	}
	line := s[i+len("REPLAY-RESULT "):]
	if j := strings.Index(line, "\n"); j >= 0 {
		line = line[:j]
	}
	json.Unmarshal([]byte(line), &r)
	switch {
	case r.Reproduced && r.HashMatch:
		fmt.Println("REPLAY: violation reproduced, event log hash identical")
		os.RemoveAll(scratch)
		os.Exit(1)
	case r.Reproduced:
		fmt.Println("REPLAY-DIVERGED: violation reproduced but the event log hash differs (tree changed?)")
		os.RemoveAll(scratch)
		os.Exit(1)
	default:
		fmt.Println("REPLAY: the violation does not occur on this tree")
	}
}
