package main

import (
	"encoding/json"
	"os"
	"path/filepath"
)

type propMeta struct {
	Level       string
	Rule        string
	Assumptions []string
	Probes      []string // rare conditions this property cares about; zero = workload defect (warning)
	QuickS      float64
	ThoroughS   float64
}

var components = map[string]string{
	"real":          "client.go, request.go, mqtt.go and mqtttest of /repo's working tree (unmodified apart from build-time inserted verifsim.Yield calls and, for the FileSystem store, the rebinding of the os import); Go runtime, bufio, net.Buffers, context, time (fake clock by testing/synctest)",
	"model":         "network connections and dialer (simnet), the broker (refbroker + refcodec, written from the OASIS text), the medium below Persistence (simdisk), os below FileSystem (simos/simfs), the application (harness tasks)",
	"not_exercised": "cmd/mqttc, TLS dialers, the docker-based integration test",
}

var flowAssumptions = []string{
	"goroutines are released one at a time at seam calls and inserted yield points (before channel operations, mutex locks and sync/atomic calls); code between two yield points is one atomic step (mutex critical sections, straight-line code without such operations)",
	"GOMAXPROCS(1) and asyncpreemptoff: the order in which goroutines woken by the released goroutine run is the Go scheduler's deterministic run-queue order",
	"the reference broker and codec are correct with respect to MQTT 3.1.1",
	"a clean batch is evidence over the sampled schedules and fault sequences, not proof",
}

const distinctRule = " distinct = distinct hash of the (goroutine, action-kind) decision sequence of a run."

var props = map[string]propMeta{
	"C01": {
		Level:       "exploration",
		Rule:        "each evaluation is one seeded run of the general flow (InitSession on simdisk, reader, 1-3 publisher tasks with 1-8 persisted publishes each, optional requester tasks, swarm-drawn configuration and fault mix; quiescence phase with bounded liveness)." + distinctRule + " non-trivial = at least one fault fired and a message was accepted while down or retransmitted on a later connection",
		Assumptions: flowAssumptions,
		Probes:      []string{"retransmitted", "accepted_while_down", "completed_publish", "short_write_timeout", "write_break", "read_expiry", "dial_fail", "disk_err_before_S", "disk_err_before_D", "disk_err_before_L"},
		QuickS:      20, ThoroughS: 300,
	},
	"C02": {
		Level:       "fault_enumeration",
		Rule:        "family stops: for a seeded base run of the publish flow (both levels, light fault mix) with K storage operations after InitSession, the same seed is re-run 2K times with the process stopped before and after every Save/Delete/Load/List (an interrupted Save or Delete reaches the medium or not by draw), then AdoptSession on the frozen image against the same broker model, 2-4 incarnations with fresh publishes in each, later stops (also inside AdoptSession itself) at drawn operation boundaries; family anywhere: stops at any scheduler step; family wrap: constructed images with the pending ranges at the 14-bit identifier wrap-around; in 35 % of the runs with three or more incarnations PUBACK and PUBCOMP are withheld in every incarnation but the last, so that transfers stay open across several stops while newer ones overtake them; family fs-store: the same session on the real FileSystem store over the simulated os, killed at a drawn system call (entry, exit, or inside the data write after a drawn byte count). Oracle at the adopted client's first Online: lower (accepted, final acknowledgement not handed over) is a subset of the resumed set, which is a subset of upper (lower + still stored), original identifiers and order, stage PUBREL exactly when the stored record is a PUBREL; no warnings or fatal; nothing lost and no exactly-once duplicate after the last incarnation quiesced." + distinctRule + " non-trivial = a transfer was resumed after a restart",
		Assumptions: append([]string{"the crash model is a process stop: the Persistence keeps exactly what completed operations wrote, plus possibly the one operation in progress", "sweeps are complete over the storage-operation boundaries of each sampled base run, not over all base runs"}, flowAssumptions...),
		Probes:      []string{"resumed_after_restart", "second_restart_checked", "stop_before_op", "stop_after_op", "stop_anywhere", "stop_inside_write", "stop_before_syscall", "stop_after_syscall"},
		QuickS:      25, ThoroughS: 400,
	},
	"C03": {
		Level:       "exploration",
		Rule:        "seeded runs of the general flow with exactly-once publishes (70-100 %), faults of C01; oracles: no PUBLISH after the PUBREL record was stored, PUBREL present at every Online, broker delivery log has each exactly-once message at most once." + distinctRule + " non-trivial = a fault fired and a PUBREL or PUBLISH was retransmitted",
		Assumptions: flowAssumptions,
		Probes:      []string{"pubrel_resent", "retransmitted", "unread_input_lost"},
		QuickS:      20, ThoroughS: 300,
	},
	"C05": {
		Level:       "exploration",
		Rule:        "seeded runs with one sequential publisher (exact order) or 2-6 concurrent publishers (per-goroutine and real-time order, wire order = identifier order), both levels, breaks and failed connects; family wrap: constructed images with the pending ranges at the 14-bit wrap-around, 2-3 incarnations, new publishes queued behind the resumed ones; oracles over the wire log: consecutive identifiers at first appearance, resend order, DUP exactly on retransmissions of completely written packets, completion order. family restarts: 3-4 incarnations with stops at drawn steps and transfers of both levels open across them (PUBRELs stored by one incarnation, new records by the next, in half of the runs with the final acknowledgements withheld until the last incarnation); oracle restart-resend-incomplete: the first connection of an adopted client carries every transfer that was unacknowledged at the stop." + distinctRule + " non-trivial = a fault fired and a retransmission carried DUP",
		Assumptions: flowAssumptions,
		Probes:      []string{"resend_carried_dup", "retransmitted", "pending_range_straddles_wrap", "second_restart_checked"},
		QuickS:      20, ThoroughS: 300,
	},
	"C04": {
		Level:       "exploration",
		Rule:        "seeded runs with 1-8 inbound messages (mostly exactly-once) from the reference broker, which retransmits PUBLISH (DUP) and PUBREL on reconnect; breaks after client acknowledgements were written but before the broker consumed them; in half of the runs the broker reuses an identifier as soon as its transaction is complete and keeps an in-flight window of 1-3 messages, in half of those storage errors are concentrated on the late operations of a cycle; oracles: no return of a message while its marker is stored, no second return of a message within one process, a message confirmed with PUBREC was returned at some time (a leftover reception record must not swallow the next message with that identifier), every broker-side handshake completes in the quiescence phase; family restarts: process stops between delivery, reception record and PUBREC (2-3 incarnations), a message whose PUBREC an earlier incarnation wrote is not returned again. family restarts-damaged-marker: process stops as in family restarts, and between the stop and the adoption 1-2 reception records of the image are altered in one byte or truncated to at least one byte (the key stays: the mere existence of a record marks the reception); a message whose PUBREC an earlier incarnation had written is not returned again." + distinctRule + " non-trivial = a fault fired and the broker retransmitted an exactly-once PUBLISH",
		Assumptions: flowAssumptions,
		Probes:      []string{"q2_retransmission_seen", "q2_duplicate_completed", "unread_input_lost", "identifier_reused", "disk_err_before_D", "damage_alter_marker", "damage_truncate_marker"},
		QuickS:      20, ThoroughS: 300,
	},
	"C06": {
		Level:       "exploration",
		Rule:        "seeded well-formed inbound streams (all packet types a broker sends, topics up to the read buffer, payloads 0, around the read buffer +-8, 1-3 buffers; read buffer 16 B..128 KiB) cut into reads by the tape (1-byte reads, coalescing, progress-making deadline expiries at drawn cuts), BigMessage read or skipped; no other fault, so any ReadSlices error is a violation; oracle: returned (topic, message) sequence equals the sent PUBLISH sequence byte for byte. family redelivery: connection loss in the middle of inbound traffic (mostly exactly-once, a third of the messages beyond the read buffer); oracle per connection: the returns follow the PUBLISH packets queued on it in order, only exactly-once retransmissions of a message returned before are passed over, and what follows a suppressed duplicate or an unread BigMessage is not lost." + distinctRule + " non-trivial = a progress-making expiry or a short read fired and a message beyond the read buffer was received",
		Assumptions: flowAssumptions,
		Probes:      []string{"progress_making_expiry", "big_message", "big_message_skipped", "short_read", "duplicate_suppressed", "big_duplicate_suppressed", "return_matches_stream"},
		QuickS:      20, ThoroughS: 300,
	},
	"C07": {
		Level:       "exploration",
		Rule:        "seeded mixed inbound streams with the application pausing after any return (harness park point between a ReadSlices return and the next invocation), BigMessage read or skipped, failing acknowledgement writes, concurrent outbound requests; oracle on the wire log: a PUBACK/PUBREC is written only after ReadSlices was invoked again, carries a returned message's identifier, and every returned message is acknowledged by the end of the quiescence phase; in half of the runs the broker postpones the retransmission of messages the application holds unacknowledged (no deadline in the specification), so that the acknowledgement on the new connection has to come from the client's own pending state; in 40 % the broker reuses identifiers (acknowledgements are matched to the oldest return with that identifier that has none on a wire yet)." + distinctRule + " non-trivial = a fault fired and an acknowledgement was sent on a later connection than the delivery",
		Assumptions: flowAssumptions,
		Probes:      []string{"ack_after_ownership", "ack_on_new_connection", "retransmission_withheld", "identifier_reused"},
		QuickS:      20, ThoroughS: 300,
	},
	"C09": {
		Level:       "exploration",
		Rule:        "input sampling, said plainly: no schedule decides this property, and the one fault dimension it has is a transport that accepts packets in pieces (30 % of the runs: a prefix, then the write deadline; the client has to continue where it stopped). Each run draws a Config (user name without/with password, password only, empty password, will with empty/non-empty message, retain and both QoS flags, keep-alive 0/1/60/65535, clean session) and a client identifier, connects against the reference broker and issues 2-7 requests with boundary-biased arguments (string lengths 1, 127, 128, 65534, 65535; the first and last code point of every UTF-8 length, U+FFFD itself, non-characters and control characters; payloads across the remaining-length width boundaries 127/128, 16383/16384, 2097151/2097152; 1-4 filters; each level limit), decoding every packet on the wire with the independent strict codec and comparing all fields; 35 % of the requests carry an invalid argument (empty, ten kinds of ill-formed UTF-8, U+0000, 65536 bytes, no filters) and must be denied with IsDeny without a byte written or a storage operation; illegal Config strings must be refused by the constructor; denials do not consume capacity (maximum 1; 40 denied subscribes)." + distinctRule + " non-trivial = every run (each draws a distinct configuration and argument set)",
		Assumptions: []string{"the 268,435,455-byte packet boundary is exercised on persisted publishes of an offline client only (family size-limit: remaining length at the limit -1, +0, +1, +2; the packet goes to the Persistence, a wire log would have to hold 256 MiB); the three smaller remaining-length boundaries are exercised on the wire", "the reference codec is correct with respect to MQTT 3.1.1"},
		Probes:      []string{"connect_decoded", "decoded_PUBLISH", "decoded_SUBSCRIBE", "decoded_UNSUBSCRIBE", "remaining_length_multi_byte", "invalid_ill-formed-utf8", "invalid_nul", "invalid_over-65535", "invalid_empty", "invalid_no-filters", "illegal_config", "short_write_timeout", "valid_at-268435455", "invalid_over-268435455"},
		QuickS:      15, ThoroughS: 200,
	},
	"C10": {
		Level:       "exploration",
		Rule:        "seeded runs with inbound QoS 1/2 traffic (the reader owes PUBACK, PUBREC, PUBCOMP, PUBREL) plus writer tasks of every request type; write failures of other goroutines at drawn points, read errors, EOF, expiries, failed dials and handshakes; breaks include the half-close (end of stream for the reader while the peer takes nothing more: writes block until their deadline, a local Close or a reset, which comes from the fault budget and is withheld once the reader was handed the end of the stream); family partition: the connection goes silent without reset (in 40 % also with a full send buffer), preferably inside a large inbound packet (only PauseTimeout lets the client notice; the reset that ends the partition is withheld from a client that has those means once faults have stopped); oracle: bounded liveness (the client serves again within L simulated time and S steps once faults stop) and the documented ReadBackoff rules." + distinctRule + " non-trivial = a write failed or timed out",
		Assumptions: flowAssumptions,
		Probes:      []string{"write_break", "short_write_timeout", "backoff_checked", "read_expiry", "dial_fail", "partition", "partition_inside_packet", "break_kind3", "blocked_write_timed_out"},
		QuickS:      20, ThoroughS: 300,
	},
	"C08": {
		Level:       "exploration",
		Rule:        "seeded runs with concurrent Publish/Subscribe/Unsubscribe/Ping/persisted publishes plus the reader's own writes and resends; every Write may be split at a drawn byte count with a deadline expiry or a hard error, on pipe-like and TCP-like connections; 15 % of the publisher iterations first issue a request with an invalid topic (denied, no trace in what the others send); family volatile: the same on a VolatileSession; oracle: each connection's bytes parse (strict independent codec) as whole packets that equal their request, success implies a complete packet (for Ping: a PINGREQ written completely while the call ran)." + distinctRule + " non-trivial = a write was split (timeout or hard error)",
		Assumptions: flowAssumptions,
		Probes:      []string{"short_write_timeout", "write_break", "request_success"},
		QuickS:      20, ThoroughS: 300,
	},
	"C11": {
		Level:       "exploration",
		Rule:        "seeded runs with 2-7 requester tasks issuing Subscribe/Unsubscribe/Ping (quit nil, open, closed before, closed during), broker failing a subset of filters, connection loss at any point; family ping-slot: 3-5 tasks issuing Ping with every kind of quit behind a busy write lock; family teardown: storage errors in the acknowledgement handlers (record removal only) take a healthy, writable connection down while 3-5 tasks issue requests, Close is a scheduling point of its own, the fault budget is 1-3 so that the last teardown is the one that shows; family id-window: the answer to the first SUBSCRIBE is held while 8,191 UNSUBSCRIBE round trips take the identifier counter once around, then a second SUBSCRIBE with a failing filter; a run that comes to rest with a call outstanding while the environment withholds nothing is judged as the end of a quiescence phase (hung callers); oracles: a result needs that request's own response handed to the client before the return, SubscribeError lists exactly the failed filters in order, every call has returned when the quiescence phase ends, a closed quit is honoured within 2 s of simulated time also behind a writer that blocks for good." + distinctRule + " non-trivial = a fault fired and a request was answered or a quit was closed during a request",
		Assumptions: flowAssumptions,
		Probes:      []string{"answered_request", "answered_ping", "subscribe_error_mapped", "quit_closed_during_request", "identifier_window_wrapped", "pong_meets_unsubmitted_ping", "goroutine_held_back", "healthy_connection_closed_by_client"},
		QuickS:      20, ThoroughS: 300,
	},
	"C12": {
		Level:       "fault_enumeration",
		Rule:        "family closers: seeded runs of the general flow (publishers, requesters, inbound traffic, fault mix) with 1-3 Close/Disconnect invocations (nil, open and closed quit) started at drawn steps, the later ones right after the first (concurrent); family close-sweep: for a sampled base run of N steps the same seed is re-run with the first closer started at every step 1..min(N,400). Oracles: each call returns (bounded in simulated time and steps) without panic; afterwards every method returns ErrClosed twice, ReadSlices reports ErrClosed, Offline released and Online blocked at every later step and never both released, pending exchanges received ErrClosed and stay open, every connection closed, a successful Disconnect left DISCONNECT as the last packet, no goroutine of the library left (stack census of the bubble). A dial whose context ended meanwhile fails or, in 30 % of the cases, still returns its connection (the cancellation came too late for the dialer)." + distinctRule + " non-trivial = a closer landed while dialing, awaiting CONNACK, resending, with a writer in flight or offline",
		Assumptions: append([]string{"the close-point sweep is complete over the steps of each sampled base run (up to 400), not over all base runs"}, flowAssumptions...),
		Probes:      []string{"closer_never-connected", "closer_dialing", "closer_awaiting-connack", "closer_resending", "closer_online", "closer_online-writer-in-flight", "closer_offline", "closer_already-closed", "post_close_probe", "exchange_got_errclosed", "disconnect_succeeded", "dial_completed_after_cancel", "dial_hang"},
		QuickS:      25, ThoroughS: 400,
	},
	"C13": {
		Level:       "exploration",
		Rule:        "seeded runs of the general flow (0-2 publishers, requesters, inbound traffic, small read buffers) in which the broker's stream turns hostile 1-4 times: a violation built from a catalogue against the client's current state (reserved and client-only types, five-byte remaining length, zero and foreign identifiers, out-of-order and unsolicited acknowledgements, inconsistent lengths, illegal SUBACK codes, QoS 3, second CONNACK), random bytes, a single-bit mutation of a valid packet, or a stall in the middle of a packet; the handshake reply is replaced likewise (wrong header, reserved flags, session-present on clean, random bytes, refusal, stall). Oracles: no panic (API calls recover; a crash of the process on a library goroutine is reported with its run as replay), every catalogue violation that the client read completely resets the connection with a ReadSlices error, a stall mid-packet ends within PauseTimeout (ReadSlices, ReadAll, handshake), a completion needs its acknowledgement in the input, in order, for a PUBLISH that was written. Mutation and random input is input sampling (coverage guidance is another technique and is not used)." + distinctRule + " non-trivial = a catalogue violation reset the connection or a stall timed out",
		Assumptions: flowAssumptions,
		Probes:      []string{"violation_reset", "stall_timed_out", "hostile_random-bytes", "hostile_stall-mid-packet", "hostile_handshake-stall", "hostile_length-over-four-bytes", "hostile_second-CONNACK"},
		QuickS:      20, ThoroughS: 300,
	},
	"C14": {
		Level:       "exploration",
		Rule:        "seeded runs of every request method against every client state reached by the fault mix, with quit timing drawn; oracle over every API return: documented class per method, not-submitted classes leave no byte of the request's unique marker on any connection, quit classes only after quit, rejected persisted publishes never transmitted, never holding a slot and never stored; family closing: requests in flight when Close/Disconnect lands." + distinctRule + " non-trivial = a fault fired and a limbo or not-submitted class was returned",
		Assumptions: flowAssumptions,
		Probes:      []string{"class_ErrSubmit", "class_ErrBreak", "class_ErrDown", "class_ErrCanceled", "class_ErrAbandoned", "class_ErrMax"},
		QuickS:      20, ThoroughS: 300,
	},
	"C15": {
		Level:       "fault_enumeration",
		Rule:        "always-on monitor: every value handed to Save is checked against the documented layout (packet || 8-byte little-endian sequence number || 4-byte big-endian FNV-1a over both, recomputed independently) with strictly increasing sequence numbers. family single-byte: a seeded base run leaves 1-3 outbound records (PUBLISH and PUBREL, 40-70 bytes) pending at a stop; the same seed is re-run once per case for EVERY byte position x all 255 other values and EVERY truncation length of every record, applied to the image before AdoptSession; family layout: 2-4 publishers at both levels plus inbound exactly-once traffic, i.e. concurrent Save calls from several goroutines; family load-damage: one byte of a Load result is altered (or the result truncated) at drawn instants (resend, marker lookup, client-identifier load, AdoptSession). Oracles: a single-byte alteration or a value under 12 bytes is reported (warning or error), every PUBLISH/PUBREL on a wire equals a packet genuinely saved under that key, CONNECT carries the original client identifier." + distinctRule + " non-trivial = damage was applied and reported",
		Assumptions: append([]string{"the single-byte and truncation enumeration is complete for each sampled base image (all records, all positions, all values) in the thorough tier; the quick tier samples each sweep of more than 1,500 cases with a stride from a seed-dependent offset (coverage.exhaustive_sweeps tells complete from sampled); not over all images; detection of truncations of 12 bytes or more and of multi-byte damage is measured, not claimed (32-bit checksum)"}, flowAssumptions...),
		Probes:      []string{"record_layout_checked", "damage_reported", "load_damaged", "damage_alter_publish", "damage_alter_pubrel", "damage_truncate_publish"},
		QuickS:      25, ThoroughS: 400,
	},
	"C16": {
		Level:       "exploration",
		Rule:        "seeded: a flow run (publishers of both levels, inbound exactly-once traffic) is stopped at a drawn step; 1-3 records of the image (outbound PUBLISH, PUBREL, inbound marker, client identifier) are altered in one byte, truncated or removed and 0-2 stray entries added (foreign key ranges, garbage, valid-looking records); AdoptSession, then a fault-free incarnation with new publishes against the same broker model. family damage-then-restart: damage of outbound records, adoption, more publishes up to small maxima with the final acknowledgements withheld, another stop and a second adoption on the image that still holds what the first one abandoned. family damage-faults: the same with connection and storage faults met by the adopted client (a connection that breaks during the resend of adopted records), liveness judged from the quiescence phase. Oracles: no fatal (of any adoption), no panic, at least one warning per unusable record, the client comes online and completes what it resumed and what is new within the liveness bounds, resent packets equal genuinely saved records in their original order, no identifier collision." + distinctRule + " non-trivial = damage was applied and the session recovered",
		Assumptions: flowAssumptions,
		Probes:      []string{"damaged_session_recovered", "damage_alter_publish", "damage_remove_publish", "damage_alter_pubrel", "damage_alter_marker", "damage_remove_marker", "damage_alter_clientid", "damage_stray_stray"},
		QuickS:      25, ThoroughS: 400,
	},
	"C19": {
		Level:       "fault_enumeration",
		Rule:        "the real fileSystem methods of /repo on the simulated os (every os call of mqtt.go is a park point). family stops: for a seeded sequence of 2-7 Save/Delete/Load/List calls over 1-3 keys (values 12 B..100 KiB, several MiB in the thorough tier; 1-3 buffers) a dry pass lists the system calls, then the same seed is re-run once per crash point: a process kill at the entry and exit of EVERY system call and inside every data write after EVERY byte count (complete up to 4 KiB per write, 9 sampled counts above); afterwards a fresh FileSystem(dir) on the frozen image must load each key as its complete previous or complete new value (Delete: previous or absent), leave other keys unchanged, list every acknowledged key and nothing Load cannot return; family errors: ENOSPC/EIO/short writes injected at drawn calls, a failed Save leaves the previous value and the store agrees with the model afterwards; family concurrent: 2-4 tasks, one writer per key, every os call a scheduling point, histories of <= 12 operations checked with porcupine against a map (Unknown = inconclusive); invariant at every rename: the source was flushed (Sync) before it became visible." + distinctRule + " non-trivial = a crash point or error was injected, or a concurrent history of more than 3 operations was checked",
		Assumptions: []string{"the crash model is a process kill: all completed system calls and the prefix of the interrupted write survive; power loss below that level is not modelled (the flush clause is checked as an ordering invariant at rename)", "rename is atomic, as POSIX requires", "two simultaneous writers of one key are not generated: the statement promises non-interference for different keys and both Saves share one spool name by design", "the crash-point enumeration is complete for each sampled operation sequence, not over all sequences"},
		Probes:      []string{"stop_before_syscall", "stop_after_syscall", "stop_inside_write", "stopped_save_new_value", "stopped_save_old_value", "save_failed", "history_linearizable", "fs_err_write", "fs_err_rename", "fs_err_sync"},
		QuickS:      25, ThoroughS: 400,
	},
	"C20": {
		Level:       "exploration",
		Rule:        "seeded generation of expectation lists and invocation sequences over a small alphabet (messages, topics and filter sets each equal or different independently, too few and too many calls, quit nil/open/closed), invoked from 1-3 tasks that interleave at the yields inserted into mqtttest (before channel operations, mutex locks and sync/atomic calls), against a recording testing.TB and a reference model (each expectation returns a unique error value, which tells the model which expectation a call consumed); exchange scripts of NewPublishExchangeStub (errors, timed blocks, ErrClosed, indefinite block) run under the fake clock: order, not-before-its-delay, closed exactly when the script says so; ReadSlices stub copies; closed quit yields ErrCanceled. The comparison clause is input sampling: no fault or schedule decides it." + distinctRule + " non-trivial = a deviation was generated or a script was run",
		Assumptions: []string{"a failure is 'recorded' when Errorf/Error/Fatalf was called at least once; the number of lines per deviation is not part of the contract", "goroutines interleave at the yields inserted into mqtttest only"},
		Probes:      []string{"deviation_generated", "exchange_delay_scripted"},
		QuickS:      15, ThoroughS: 200,
	},
	"C17": {
		Level:       "exploration",
		Rule:        "family windows: seeded runs with AtLeastOnceMax/ExactlyOnceMax in {0,1,2,3,-1,20000} and 1-4 concurrent publishers; family wrap: a disk image constructed in the documented record layout with the pending ranges of both levels ending at, straddling or just past identifier 0x3fff (a state a previous process could have left), adopted with maxima in {64,8,-1,20000}, 2-3 incarnations with stops at drawn steps and new publishes across the wrap; oracles: identifiers of unfinished transactions pairwise distinct and non-zero across the four kinds, in-flight count never above the maximum (also counted as records of the level in the Persistence at every Save), ErrMax only with excess and without waiting on the network." + distinctRule + " non-trivial = ErrMax was returned",
		Assumptions: flowAssumptions,
		Probes:      []string{"errmax_returned", "pending_range_straddles_wrap"},
		QuickS:      20, ThoroughS: 300,
	},
	"C18": {
		Level:       "exploration",
		Rule:        "seeded connect histories: dial failures and hangs, breaks at any point of CONNECT/CONNACK/resend, refused CONNACK with any return code, clean session on or off, requests of every type issued in each phase; oracles: CONNECT first and reflecting the Config, nothing before an accepting CONNACK, clean session only until the first established connection, refused connections closed and reported, new requests only after the resend, ErrDown only after trouble, a request issued during a connect attempt does not outlast the failed attempt by more than a second of idle backoff while the write lock is free, no ReadSlices error that blames a CONNACK of the reference broker (its sessions follow the clean-session lifetime rule: a session created with clean session ends with its connection, so session-present is 0 on the first reconnect and 1 from the second on)." + distinctRule + " non-trivial = a connect failed, was refused, or a reconnect happened",
		Assumptions: flowAssumptions,
		Probes:      []string{"refused_connack_closed", "reconnect_without_clean", "dial_fail", "dial_hang"},
		QuickS:      20, ThoroughS: 300,
	},
}

type evidence struct {
	PropertyID  string         `json:"property_id"`
	Tier        string         `json:"tier"`
	Seed        uint64         `json:"seed"`
	Level       string         `json:"level"`
	Coverage    map[string]any `json:"coverage"`
	Assumptions []string       `json:"assumptions"`
	WallS       float64        `json:"wall_s"`
	Violations  int            `json:"violations"`
}

func writeEvidence(prop, tier string, seed uint64, meta propMeta, agg *batchResult, nActs, nNontriv, nStates int, wall, buildS float64, violations, workers int) {
	runS := wall - buildS
	if runS < 0.001 {
		runS = 0.001
	}
	samples := []any{}
	for _, s := range agg.Samples {
		samples = append(samples, s)
	}
	if len(samples) == 0 {
		samples = append(samples, "no sample recorded")
	}
	cov := map[string]any{
		"evaluations":              agg.Runs,
		"distinct_nontrivial":      nNontriv,
		"rule":                     meta.Rule,
		"samples":                  samples,
		"simulated_runs":           agg.Runs,
		"runs_per_hour":            int(float64(agg.Runs) / runS * 3600),
		"seeds_per_hour":           int(float64(agg.Runs) / runS * 3600),
		"simulated_time_s":         agg.SimTimeS,
		"scheduler_steps":          agg.Steps,
		"faults_fired":             agg.Faults,
		"probes":                   agg.Probes,
		"distinct_interleavings":   nActs,
		"distinct_counting":        "distinct hashes are collected up to 400,000 per worker and kind (interleavings, non-trivial): in long batches both numbers are lower bounds",
		"distinct_abstract_states": nStates,
		"inconclusive_runs":        agg.Inconcl,
		"runs_per_family":          agg.PerFam,
		"notes_other_properties":   agg.Notes,
		"components":               components,
		"workers":                  workers,
		"build_s":                  buildS,
	}
	if agg.SweepCases > 0 {
		cov["sweep_cases"] = agg.SweepCases
	}
	if len(agg.Exhaustive) > 0 {
		cov["exhaustive_sweeps"] = agg.Exhaustive
	}
	ev := evidence{PropertyID: prop, Tier: tier, Seed: seed, Level: meta.Level, Coverage: cov,
		Assumptions: meta.Assumptions, WallS: wall, Violations: violations}
	b, _ := json.MarshalIndent(ev, "", " ")
	dir := filepath.Join(verifDir, "evidence")
	os.MkdirAll(dir, 0o755)
	os.WriteFile(filepath.Join(dir, prop+".json"), b, 0o644)
}
