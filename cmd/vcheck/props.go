package main

import (
	"encoding/json"
	"os"
	"path/filepath"
)

type propMeta struct {
	Level       string
	Rule        string
	Assumptions []string
	Probes      []string // rare conditions this property cares about; zero = workload defect (warning)
	QuickS      float64
	ThoroughS   float64
}

var components = map[string]string{
	"real":  "client.go, request.go, mqtt.go and mqtttest of /repo's working tree (unmodified apart from build-time inserted verifsim.Yield calls and, for the FileSystem store, the rebinding of the os import); Go runtime, bufio, net.Buffers, context, time (fake clock by testing/synctest)",
	"model": "network connections and dialer (simnet), the broker (refbroker + refcodec, written from the OASIS text), the medium below Persistence (simdisk), os below FileSystem (simos/simfs), the application (harness tasks)",
	"not_exercised": "cmd/mqttc, TLS dialers, the docker-based integration test",
}

var flowAssumptions = []string{
	"goroutines are released one at a time at seam calls and inserted yield points; code between two yield points is one atomic step (mutex critical sections, straight-line code without channel operations)",
	"GOMAXPROCS(1) and asyncpreemptoff: the order in which goroutines woken by the released goroutine run is the Go scheduler's deterministic run-queue order",
	"the reference broker and codec are correct with respect to MQTT 3.1.1",
	"a clean batch is evidence over the sampled schedules and fault sequences, not proof",
}

var props = map[string]propMeta{
	"C01": {
		Level: "exploration",
		Rule: "each evaluation is one seeded run of the flow family (InitSession on simdisk, reader, 1-3 publisher tasks with 1-8 persisted publishes each, swarm-drawn configuration and fault mix; quiescence phase with bounded liveness). distinct = distinct hash of the (goroutine, action-kind) decision sequence; non-trivial = at least one fault fired and a message was accepted while down or retransmitted on a later connection",
		Assumptions: flowAssumptions,
		Probes:      []string{"retransmitted", "accepted_while_down", "completed_publish", "short_write_timeout", "write_break", "read_expiry", "dial_fail", "disk_err_before_S", "disk_err_after_D"},
		QuickS:      20, ThoroughS: 300,
	},
}

type evidence struct {
	PropertyID  string         `json:"property_id"`
	Tier        string         `json:"tier"`
	Seed        uint64         `json:"seed"`
	Level       string         `json:"level"`
	Coverage    map[string]any `json:"coverage"`
	Assumptions []string       `json:"assumptions"`
	WallS       float64        `json:"wall_s"`
	Violations  int            `json:"violations"`
}

func writeEvidence(prop, tier string, seed uint64, meta propMeta, agg *batchResult, nActs, nNontriv, nStates int, wall, buildS float64, violations, workers int) {
	runS := wall - buildS
	if runS < 0.001 {
		runS = 0.001
	}
	samples := []any{}
	for _, s := range agg.Samples {
		samples = append(samples, s)
	}
	if len(samples) == 0 {
		samples = append(samples, "no sample recorded")
	}
	cov := map[string]any{
		"evaluations":            agg.Runs,
		"distinct_nontrivial":    nNontriv,
		"rule":                   meta.Rule,
		"samples":                samples,
		"simulated_runs":         agg.Runs,
		"runs_per_hour":          int(float64(agg.Runs) / runS * 3600),
		"seeds_per_hour":         int(float64(agg.Runs) / runS * 3600),
		"simulated_time_s":       float64(agg.SimTimeNS) / 1e9,
		"scheduler_steps":        agg.Steps,
		"faults_fired":           agg.Faults,
		"probes":                 agg.Probes,
		"distinct_interleavings": nActs,
		"distinct_abstract_states": nStates,
		"inconclusive_runs":      agg.Inconcl,
		"runs_per_family":        agg.PerFam,
		"notes_other_properties": agg.Notes,
		"components":             components,
		"workers":                workers,
		"build_s":                buildS,
	}
	if agg.SweepCases > 0 {
		cov["sweep_cases"] = agg.SweepCases
	}
	if len(agg.Exhaustive) > 0 {
		cov["exhaustive_sweeps"] = agg.Exhaustive
	}
	ev := evidence{PropertyID: prop, Tier: tier, Seed: seed, Level: meta.Level, Coverage: cov,
		Assumptions: meta.Assumptions, WallS: wall, Violations: violations}
	b, _ := json.MarshalIndent(ev, "", " ")
	dir := filepath.Join(verifDir, "evidence")
	os.MkdirAll(dir, 0o755)
	os.WriteFile(filepath.Join(dir, prop+".json"), b, 0o644)
}
