module verif/vcheck

go 1.26
