#!/bin/bash
# Determinism self-test: for each property given (default: all registered in
# MANIFEST.json), run N seeds in P fresh processes at GOMAXPROCS 1/4/16 and
# diff the event-log hashes; then, per property, replay fidelity: every run is
# re-executed from its own recorded tape and must yield the same event-log hash.
# usage: selftest/determinism.sh [N] [P] [props...]
set -u
cd /verif
export GOFLAGS=-mod=mod GOPROXY=off GOSUMDB=off GOTOOLCHAIN=local GODEBUG=asyncpreemptoff=1
N=${1:-200}; P=${2:-10}; shift 2 2>/dev/null
PROPS="$*"
[ -z "$PROPS" ] && PROPS=$(jq -r '.checks[].property_id' MANIFEST.json)
S=$(mktemp -d /dev/shm/verif-det-XXXXXX)
trap 'rm -rf "$S"' EXIT
bin/mkoverlay -repo /repo -verif /verif -out "$S" -goroot "$(go1.26.8 env GOROOT)" >/dev/null || exit 2
(cd sim && go1.26.8 test -c -vet=off -overlay "$S/overlay.json" -o "$S/sim.test" .) || exit 2
grep -n "\.Range(" sim/*.go && echo "WARNING: sync.Map.Range in harness"
rc=0
for prop in $PROPS; do
  for i in $(seq 1 $P); do
    for g in 1 4 16; do
      GOMAXPROCS=$g VERIF_MODE=hashes VERIF_PROP=$prop VERIF_N=$N VERIF_SEED=${VERIF_SEED:-7} "$S/sim.test" -test.run '^TestWorker$' > "$S/h.$prop.$i.$g" 2>&1 &
    done
  done
  wait
  n=$(md5sum "$S"/h.$prop.* | awk '{print $1}' | sort -u | wc -l)
  lines=$(grep -c "^$prop " "$S/h.$prop.1.1")
  if [ "$n" != 1 ] || [ "$lines" -lt "$N" ]; then
    echo "NONDETERMINISM property=$prop: $n distinct outputs over $((P*3)) processes ($lines result lines)"
    md5sum "$S"/h.$prop.* | sort | awk '{print $1}' | uniq -c
    ref="$S/h.$prop.1.1"
    for f in "$S"/h.$prop.*; do diff "$ref" "$f" | head -4; done | head -20
    rc=1
  else
    echo "deterministic property=$prop: $((P*3)) processes x $N seeds identical"
  fi
done
for prop in $PROPS; do
  GOMAXPROCS=1 VERIF_MODE=hashes VERIF_REPLAYCHECK=1 VERIF_PROP=$prop VERIF_N=$N VERIF_SEED=${VERIF_SEED:-7} "$S/sim.test" -test.run '^TestWorker$' > "$S/r.$prop" 2>&1 &
done
wait
for prop in $PROPS; do
  m=$(grep -c REPLAY-MISMATCH "$S/r.$prop")
  lines=$(grep -c "^$prop " "$S/r.$prop")
  if [ "$m" != 0 ] || [ "$lines" -lt "$N" ]; then
    echo "REPLAY-INFIDELITY property=$prop: $m of $lines runs differ when re-executed from their recorded tape"
    grep REPLAY-MISMATCH "$S/r.$prop" | head -3
    rc=1
  else
    echo "replay-faithful property=$prop: $lines runs re-executed from their tapes, hashes identical"
  fi
done
exit $rc
