// Package simos stands in for package os inside the instrumented mqtt.go of
// the simulation build (the import line is rebound by the overlay generator).
// It offers exactly the names the FileSystem store uses; every call is handed
// to the Backend installed by the simulator.
package simos

import (
	"io/fs"
)

const PathSeparator = '/'

var ErrNotExist = fs.ErrNotExist

// Flags of OpenFile, with the values of package os on Linux.
const (
	O_RDONLY = 0x0
	O_WRONLY = 0x1
	O_RDWR   = 0x2
	O_APPEND = 0x400
	O_CREATE = 0x40
	O_EXCL   = 0x80
	O_SYNC   = 0x101000
	O_TRUNC  = 0x200
)

// FileMode mirrors os.FileMode for signatures only.
type FileMode = fs.FileMode

var (
	ErrExist      = fs.ErrExist
	ErrPermission = fs.ErrPermission
	ErrClosed     = fs.ErrClosed
)

// Backend is the simulated kernel.
type Backend interface {
	Create(name string) (fd int, err error)
	Open(name string) (fd int, err error)
	Write(fd int, p []byte) (n int, err error)
	Sync(fd int) error
	Close(fd int) error
	Readdirnames(fd int, n int) ([]string, error)
	Rename(oldpath, newpath string) error
	Remove(name string) error
	ReadFile(name string) ([]byte, error)
	// OpenFile opens with flags (O_CREATE, O_TRUNC, O_EXCL, O_APPEND honoured).
	OpenFile(name string, flag int) (fd int, err error)
}

// B must be installed before use.
var B Backend

type File struct {
	fd   int
	name string
}

func Create(name string) (*File, error) {
	fd, err := B.Create(name)
	if err != nil {
		return nil, err
	}
	return &File{fd: fd, name: name}, nil
}

// OpenFile is the generalized open call.
func OpenFile(name string, flag int, perm FileMode) (*File, error) {
	fd, err := B.OpenFile(name, flag)
	if err != nil {
		return nil, err
	}
	return &File{fd: fd, name: name}, nil
}

// WriteFile writes data to the named file, creating or truncating it.
func WriteFile(name string, data []byte, perm FileMode) error {
	f, err := OpenFile(name, O_WRONLY|O_CREATE|O_TRUNC, perm)
	if err != nil {
		return err
	}
	_, err = f.Write(data)
	if err1 := f.Close(); err1 != nil && err == nil {
		err = err1
	}
	return err
}

func Open(name string) (*File, error) {
	fd, err := B.Open(name)
	if err != nil {
		return nil, err
	}
	return &File{fd: fd, name: name}, nil
}

func (f *File) Name() string                         { return f.name }
func (f *File) Write(p []byte) (int, error)          { return B.Write(f.fd, p) }
func (f *File) Sync() error                          { return B.Sync(f.fd) }
func (f *File) Close() error                         { return B.Close(f.fd) }
func (f *File) Readdirnames(n int) ([]string, error) { return B.Readdirnames(f.fd, n) }

func Rename(oldpath, newpath string) error { return B.Rename(oldpath, newpath) }
func Remove(name string) error             { return B.Remove(name) }
func ReadFile(name string) ([]byte, error) { return B.ReadFile(name) }
