// Package verifsim is injected into the module by the /verif build overlay
// only; it does not exist in the shipped repository. It carries the yield hook
// the go/ast instrumenter calls and the two runtime seams of the simulation
// binary (select poll order, goroutine id).
package verifsim

import _ "unsafe"

// Hook is invoked at every inserted yield point when non-nil.
var Hook func(label string)

// Yield is what the instrumenter inserts before each statement that touches a
// channel or locks a mutex.
func Yield(label string) {
	if h := Hook; h != nil {
		h(label)
	}
}

// implemented in the runtime overlay

//go:linkname setSelect runtime.verifsim_setSelect
func setSelect(mode uint32, seed uint64)

//go:linkname goid runtime.verifsim_goid
func goid() uint64

// SetSelect fixes the poll order of select statements executed by goroutines
// inside a synctest bubble: 0 stock (random), 1 source order, 2 last case
// first, 3 xorshift sequence from seed.
func SetSelect(mode uint32, seed uint64) { setSelect(mode, seed) }

// Goid returns the id of the calling goroutine.
func Goid() uint64 { return goid() }
