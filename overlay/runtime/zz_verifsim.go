package runtime

import _ "unsafe"

var verifsimSelectMode uint32
var verifsimSelectState uint64

func verifsimPoll(norder uint32) uint32 {
	switch verifsimSelectMode {
	case 1:
		return norder
	case 2:
		return 0
	default:
		x := verifsimSelectState
		x ^= x << 13
		x ^= x >> 7
		x ^= x << 17
		verifsimSelectState = x
		return uint32((x >> 11) % uint64(norder+1))
	}
}

//go:linkname verifsim_setSelect
func verifsim_setSelect(mode uint32, seed uint64) {
	verifsimSelectMode = mode
	if seed == 0 {
		seed = 0x9e3779b97f4a7c15
	}
	verifsimSelectState = seed
}

//go:linkname verifsim_goid
func verifsim_goid() uint64 {
	return getg().goid
}
