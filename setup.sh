#!/bin/bash
# setup_cmd: builds the driver and the overlay generator, and warms the build
# cache of the simulation binary (the runtime is rebuilt once because of the
# select.go overlay). Offline; uses only what is on disk.
set -e
cd /verif
export GOFLAGS=-mod=mod GOPROXY=off GOSUMDB=off GOTOOLCHAIN=local
mkdir -p bin evidence replays
(cd tools/mkoverlay && go1.26.8 build -o /verif/bin/mkoverlay .)
(cd cmd/vcheck && go1.26.8 build -o /verif/bin/vcheck .)
S=$(mktemp -d /dev/shm/verif-setup-XXXXXX 2>/dev/null || mktemp -d)
trap 'rm -rf "$S"' EXIT
bin/mkoverlay -repo /repo -verif /verif -out "$S" -goroot "$(go1.26.8 env GOROOT)"
[ -f /repo/go.sum ] && cp /repo/go.sum sim/go.sum || true
(cd sim && go1.26.8 test -c -vet=off -overlay "$S/overlay.json" -o "$S/sim.test" .)
echo "setup ok"
